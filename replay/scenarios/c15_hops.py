"""C15 runtime battery (bounded stand-in for the EnsembleError branch; regression for the rest): k pickle hops, forwarded or
re-raised at each hop, several exception classes incl. BaseException-only ones and custom __init__/__reduce__, nested in EnsembleError."""
import pickle, sys, traceback, asyncio
from mpservice.multiprocessing.remote_exception import RemoteException, is_remote_exception, get_remote_traceback, EnsembleError
fails = []


class Custom(Exception):
    def __init__(self, a, b=2):
        super().__init__(a, b)
        self.a, self.b = a, b


class Reduced(Exception):
    def __init__(self, code):
        super().__init__(f'code {code}')
        self.code = code

    def __reduce__(self):
        return (Reduced, (self.code,))


class Control(BaseException):
    pass


def raise_it(e):
    try:
        raise e
    except BaseException as x:
        return x


def chained():
    try:
        try:
            raise KeyError('inner')
        except KeyError as k:
            raise ValueError('outer') from k
    except ValueError as v:
        return v


def hop(e, reraise):
    e2 = pickle.loads(pickle.dumps(RemoteException(e)))
    if reraise:
        e2 = raise_it(e2)
    return e2


# what a process sent EARLIER must not matter: after an unpicklable instance of a class was (unsuccessfully) sent, ordinary instances of that class
# still come out with their own class and args
import threading
for cls in (KeyError, ValueError, Custom):
    bad = raise_it(cls(threading.Lock()) if cls is not Custom else Custom(threading.Lock(), 3))
    try:
        pickle.dumps(RemoteException(bad))
    except Exception:       # noqa: BLE001
        pass                # expected: the payload cannot be pickled
    good = raise_it(cls('name') if cls is not Custom else Custom('name', 9))
    out = pickle.loads(pickle.dumps(RemoteException(good)))
    if type(out) is not cls or out.args != good.args:
        fails.append(f'history dependence: after an unpicklable {cls.__name__} was sent, {good!r} came out as {out!r}')

for mk in (lambda: raise_it(ValueError(3)), lambda: raise_it(Custom('x', 7)), lambda: raise_it(Reduced(5)), chained,
           lambda: raise_it(SystemExit(3)), lambda: raise_it(Control('c')), lambda: raise_it(KeyboardInterrupt()), lambda: raise_it(asyncio.CancelledError('x'))):
    for pattern in ([False] * 4, [True] * 4, [True, False, True, False], [False, True, True, False]):
        e = mk()
        cls, args = type(e), e.args
        orig = ''.join(traceback.format_exception(type(e), e, e.__traceback__))
        prev_text = None
        for k, rr in enumerate(pattern, 1):
            try:
                e = hop(e, rr)
            except Exception as x:
                fails.append(f'{cls.__name__} hop {k}: wrapping failed: {x!r}')
                break
            if type(e) is not cls or e.args != args:
                fails.append(f'{cls.__name__} hop {k}: type/args changed: {type(e).__name__} {e.args}')
            if not is_remote_exception(e):
                fails.append(f'{cls.__name__} hop {k}: is_remote_exception is False')
                break
            text = get_remote_traceback(e)
            if orig not in text:
                fails.append(f'{cls.__name__} hop {k}: original traceback text lost')
            if k > 1 and not pattern[k - 2] and prev_text != text and False:
                pass
            if prev_text is not None and not pattern[k - 2]:
                # e was only forwarded between hop k-1 and hop k: identical text
                if text != prev_text:
                    fails.append(f'{cls.__name__} hop {k}: forwarded text changed')
            prev_text = text
            if isinstance(e, Custom) and (e.a, e.b) != ('x', 7):
                fails.append('custom attributes lost')

# EnsembleError nesting
for pattern in ([False, False, False], [True, True, True], [True, False, True]):
    m1, m2 = raise_it(ValueError(13)), raise_it(KeyError('k'))
    o1 = ''.join(traceback.format_exception(type(m1), m1, m1.__traceback__))
    ee = raise_it(EnsembleError({'y': [RemoteException(m1), 14, RemoteException(m2)], 'n': 3}))
    e = ee
    for k, rr in enumerate(pattern, 1):
        e = hop(e, rr)
        if type(e) is not EnsembleError or not is_remote_exception(e):
            fails.append(f'EnsembleError hop {k}: outer error not preserved')
            break
        ys = e.args[1]['y']
        if ys[1] != 14:
            fails.append(f'EnsembleError hop {k}: plain member changed')
        for idx, (c, a) in ((0, (ValueError, (13,))), (2, (KeyError, ('k',)))):
            m = ys[idx]
            if isinstance(m, RemoteException):
                m = m.exc
            if type(m) is not c or m.args != a:
                fails.append(f'EnsembleError hop {k}: member {idx} type/args changed')
            elif not is_remote_exception(m):
                fails.append(f'EnsembleError hop {k}: member {idx} is no longer a remote exception')
            elif idx == 0 and o1 not in get_remote_traceback(m):
                fails.append(f'EnsembleError hop {k}: member {idx} lost its traceback text')
try:
    RemoteException(ValueError('never raised'))
    fails.append('no ValueError for an exception without traceback')
except ValueError:
    pass
# the text that travels is the one formatted WHEN THE EXCEPTION WAS WRAPPED: what happens to the exception object afterwards (it keeps propagating and gathers frames,
# its traceback is cleared to break a cycle, it is raised again elsewhere) before the wrapper is finally pickled -- e.g. by a queue's feeder thread -- must not matter
def failure_site_marker():
    raise LookupError('late pickling')


def wrap_then_mutate(how):
    try:
        failure_site_marker()
    except LookupError as e:
        w = RemoteException(e)
        if how == 'traceback cleared':
            e.__traceback__ = None
        elif how == 'raised again elsewhere':
            try:
                raise e
            except LookupError:
                pass
            e.__traceback__ = None
        return w


for how in ('pickled at once', 'traceback cleared', 'raised again elsewhere'):
    w = wrap_then_mutate(how)
    try:
        out = pickle.loads(pickle.dumps(w))
    except BaseException as x:      # noqa: BLE001
        fails.append(f'late pickling ({how}): {type(x).__name__}: {x}')
        continue
    if not is_remote_exception(out) or 'failure_site_marker' not in get_remote_traceback(out) or type(out) is not LookupError:
        fails.append(f'late pickling ({how}): the traceback text of the failure site did not travel: {get_remote_traceback(out)[-120:] if is_remote_exception(out) else out!r}')
if fails:
    print('\n'.join(sorted(set(fails))[:30])); sys.exit(1)
print('OK')
