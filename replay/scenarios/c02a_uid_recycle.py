import time, faulthandler, gc, weakref
import mpservice.mpserver._server as S
from mpservice.mpserver import Server, ThreadServlet, EnsembleServlet, Worker
faulthandler.dump_traceback_later(60, exit=True)
class A(Worker):
    def call(self, x):
        if x < 0: raise ValueError(x)
        return ('A', x)
class B(Worker):
    def call(self, x):
        if x < 0 or x == 501: time.sleep(1.0)   # slow member: still working on -5 after A failed fast; also slow on 501
        return ('B', x)
# A legal object-identity allocator: a number is handed out again only after its previous owner was collected.
owners = {}      # number -> weakref of owner
def legal_id(obj):
    for num, ref in list(owners.items()):
        if ref() is None:
            owners[num] = weakref.ref(obj); return num      # recycle a freed identity (CPython does this constantly)
    num = 1000 + len(owners); owners[num] = weakref.ref(obj); return num
S.id = legal_id
server = Server(EnsembleServlet(ThreadServlet(A), ThreadServlet(B, num_threads=2), fail_fast=True), capacity=64)
with server:
    try:
        server.call(-5, timeout=5)
    except Exception as e:
        print('request -5 answered early with', type(e).__name__)
    print('request 500 received', server.call(500, timeout=10))   # lets the gather thread drop its last reference to -5's future
    gc.collect()
    y = server.call(501, timeout=10)
    print('request 501 received', y)
    time.sleep(1.2)
assert y == [('A', 501), ('B', 501)], 'CROSS-TALK'
