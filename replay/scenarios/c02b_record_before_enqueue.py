import time, faulthandler
from mpservice.mpserver import Server, ThreadServlet, Worker
faulthandler.dump_traceback_later(60, exit=True)
class W(Worker):
    def call(self, x): return x * 2
class SlowDict(dict):
    def __setitem__(self, k, v):
        time.sleep(0.2)          # the enqueuing thread is descheduled right here
        super().__setitem__(k, v)
server = Server(ThreadServlet(W), capacity=8)
server._uid_to_futures = SlowDict()
with server:
    try:
        print('result', server.call(21, timeout=2))
    except Exception as e:
        print('LOST:', repr(e))
    print('backlog after', server.backlog)
    assert server.backlog == 0
