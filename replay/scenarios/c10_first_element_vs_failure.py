"""fork A is descheduled between its test `head.value is None` and its read of `head.exc`; meanwhile B gets element 0 and the source fails."""
import threading, time, faulthandler
from types import SimpleNamespace
from mpservice.streamer import tee
faulthandler.dump_traceback_later(20, exit=True)
def src():
    yield 'x0'
    raise ValueError('boom')
a, b = tee(src(), 2, buffer_size=4)
fa, fb = a.streamlets[0], b.streamlets[0]
real = fa.head
gate = threading.Event()
class Head:
    """same head; thread A pauses right after seeing value None for the first time"""
    def __init__(self): self.first = 2
    def _tick(self):
        self.first -= 1
        return self.first == 0
    def __getattr__(self, name):
        v = getattr(real, name)
        if name == "value" and v is None and threading.current_thread().name == "A" and self.first > 0 and self._tick():
            gate.wait(5)
        return v
    def __setattr__(self, name, v):
        if name == 'first': object.__setattr__(self, name, v)
        else: setattr(real, name, v)
fa.head = Head()
res = {}
def run(name, s):
    out = []
    try:
        for x in s: out.append(x)
        res[name] = (out, 'exhausted')
    except Exception as e:
        res[name] = (out, repr(e))
ta = threading.Thread(target=run, args=('A', a), name='A'); tb = threading.Thread(target=run, args=('B', b), name='B')
ta.start(); time.sleep(0.2); tb.start(); time.sleep(0.5); gate.set()
ta.join(); tb.join()
print(res)
assert res['A'] == (['x0'], "ValueError('boom')") and res['B'] == (['x0'], "ValueError('boom')"), res
