"""C05 runtime battery: early close / failure at every small size, for Buffer, SyncIter, AsyncBuffer, fifo_stream, async_fifo_stream,
parmap.  A hang (watchdog) or a leaked thread or a wrong failure is the symptom.  Exit 0 = clean."""
import sys, threading, time, faulthandler, asyncio, concurrent.futures
from mpservice.streamer import Stream, fifo_stream, async_fifo_stream
from mpservice.streamer._streamer_async import SyncIter, AsyncBuffer, AsyncStream
faulthandler.dump_traceback_later(100, exit=True)
pool = concurrent.futures.ThreadPoolExecutor(4)


def leftover():
    time.sleep(0.05)
    return [t.name for t in threading.enumerate() if t is not threading.main_thread() and t.name != 'QueueFeederThread'
            and not t.name.startswith('ThreadPoolExecutor-0') and not t.name.startswith('asyncio_')]


def src(n=100, fail_after=None, exc=ValueError):
    for i in range(n):
        if fail_after is not None and i > fail_after:
            raise exc(i)
        yield i


async def asrc(n=100, fail_after=None):
    for i in range(n):
        if fail_after is not None and i > fail_after:
            raise ValueError(i)
        yield i


def submit(x):
    return pool.submit(lambda v: v * 2, x)


# ---- Buffer: early break at every small size, with and without a source failing right after the break
for n in (1, 2, 3, 5):
    for fail in (None, 4):
        it = iter(Stream(src(100, fail)).buffer(n))
        for x in it:
            if x == 3:
                time.sleep(0.05)
                break
        it.close()
        assert not leftover(), ('buffer', n, fail, leftover())
    # failure reaches the consumer exactly once, after all earlier outputs
    got = []
    try:
        for x in Stream(src(100, 6)).buffer(n):
            got.append(x)
        raise SystemExit('no failure raised')
    except ValueError as e:
        assert got == list(range(7)) and e.args == (7,), (n, got, e)
    assert not leftover()

# ---- fifo_stream / parmap: early close with the feeder parked in put, capacity 1..3
for cap in (1, 2, 3):
    it = fifo_stream(src(100), submit, capacity=cap)
    assert next(it) == 0
    time.sleep(0.2)        # let the feeder fill the queue and block
    it.close()
    assert not leftover(), ('fifo_stream', cap, leftover())
    it = fifo_stream(src(100, 5), submit, capacity=cap)
    got = []
    try:
        for y in it:
            got.append(y)
        raise SystemExit('no failure raised')
    except ValueError as e:
        assert got == [0, 2, 4, 6, 8, 10] and e.args == (6,), (cap, got, e)
    assert not leftover()
for conc in (1, 2):
    it = iter(Stream(src(100)).parmap(lambda v: v + 1, executor='thread', concurrency=conc))
    assert next(it) == 1
    time.sleep(0.2)
    it.close()
    assert not leftover(), ('parmap', conc, leftover())

# ---- SyncIter
it = iter(SyncIter(asrc()))
for x in it:
    if x == 3:
        time.sleep(0.3)
        break
it.close()
assert not leftover(), ('SyncIter', leftover())


# ---- async counterparts
async def afunc(x):
    async def w():
        await asyncio.sleep(0.001)
        return x * 2
    return asyncio.get_running_loop().create_task(w())


async def main():
    for n in (1, 2, 5):
        it = AsyncBuffer(asrc(), n).__aiter__()
        async for x in it:
            if x == 3:
                await asyncio.sleep(0.05)
                break
        await it.aclose()
        assert not leftover(), ('AsyncBuffer', n, leftover())
        got = []
        try:
            async for x in AsyncBuffer(asrc(100, 6), n):
                got.append(x)
            raise SystemExit('no failure raised')
        except ValueError as e:
            assert got == list(range(7)) and e.args == (7,), ('AsyncBuffer failure', n, got, e)
        assert not leftover()
    for cap in (1, 2, 3):
        it = async_fifo_stream(asrc(), afunc, capacity=cap)
        assert await it.__anext__() == 0
        await asyncio.sleep(0.2)
        await asyncio.wait_for(it.aclose(), 20)
        got = []
        try:
            async for y in async_fifo_stream(asrc(100, 5), afunc, capacity=cap):
                got.append(y)
            raise SystemExit('no failure raised')
        except ValueError as e:
            assert got == [0, 2, 4, 6, 8, 10] and e.args == (6,), (cap, got, e)
asyncio.run(main())
print('ALL OK')
