import sys, threading, time, faulthandler, asyncio, gc
from mpservice.streamer import Stream
from mpservice.streamer._streamer_async import SyncIter, AsyncBuffer
faulthandler.dump_traceback_later(20, exit=True)
def src(fail_after=None):
    for i in range(100):
        if fail_after is not None and i > fail_after:
            raise ValueError(i)
        yield i
for n in (1, 2, 3):
    for fail in (None, 4):
        it = iter(Stream(src(fail)).buffer(n))
        for x in it:
            if x == 3:
                time.sleep(0.05)
                break
        it.close()
        alive = [t.name for t in threading.enumerate() if t is not threading.main_thread()]
        assert not alive, alive
        print('buffer', n, 'fail', fail, 'closed; threads left:', alive)
async def agen():
    for i in range(100):
        yield i
it = iter(SyncIter(agen()))
for x in it:
    if x == 3:
        time.sleep(0.3); break
it.close()
print('SyncIter closed', [t.name for t in threading.enumerate() if t is not threading.main_thread()])
async def main():
    for n in (1, 2):
        it = AsyncBuffer(agen(), n).__aiter__()
        async for x in it:
            if x == 3:
                await asyncio.sleep(0.05); break
        await it.aclose()
        print('AsyncBuffer', n, 'closed', [t.name for t in threading.enumerate() if t is not threading.main_thread()])
asyncio.run(main())
print('ALL OK')
