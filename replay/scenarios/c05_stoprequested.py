import threading, queue, faulthandler, time
from mpservice.queue import IterableQueue
from mpservice.streamer import Stream
from mpservice._common import StopRequested
faulthandler.dump_traceback_later(15, exit=True)
def double(x): return x * 2
for kind in ('buffer', 'parmap'):
    to_stop = threading.Event()
    q = IterableQueue(queue.Queue(10), to_stop=to_stop)
    q._q.wait_interval_seconds = 0.2
    q.put(1); q.put(2)
    threading.Timer(0.5, to_stop.set).start()
    s = Stream(q).buffer(5) if kind == 'buffer' else Stream(q).parmap(double, executor='thread', concurrency=2)
    got = []
    try:
        for x in s:
            got.append(x)
        print(kind, 'ended normally', got)
    except BaseException as e:
        print(kind, 'consumer got', repr(e), 'after', got)
        assert isinstance(e, StopRequested)
    time.sleep(0.1)
    left = [t.name for t in threading.enumerate() if t is not threading.main_thread() and t.name != 'QueueFeederThread']
    assert not left, left
print('ALL OK')
