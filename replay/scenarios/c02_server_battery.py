"""C02/C04 runtime battery (also the bounded stand-in for EnsembleServlet._dequeue): every request gets exactly its own outcome on
sequential / ensemble / switch / batched / in-worker-threaded servers, with failures at chosen requests, stages and ensemble members,
and with member latencies that force each arrival order."""
import sys, time, threading, itertools, faulthandler
from mpservice.mpserver import (Server, ThreadServlet, ProcessServlet, SequentialServlet, EnsembleServlet, SwitchServlet, Worker, EnsembleError)
from mpservice.multiprocessing.remote_exception import is_remote_exception, get_remote_traceback
faulthandler.dump_traceback_later(280, exit=True)
fails = []


class Inc(Worker):
    def call(self, x):
        if x % 10 == 3:
            raise ValueError(('inc', x))
        return x + 1


class Dbl(Worker):
    def __init__(self, **kw):
        super().__init__(batch_size=4, batch_wait_time=0.01, **kw)

    def call(self, xs):
        if any(v % 10 == 7 for v in xs):
            raise KeyError(('dbl', tuple(xs)))
        return [v * 2 for v in xs]


class Pre(Worker):
    def preprocess(self, x):
        if x % 10 == 5:
            raise TypeError(('pre', x))
        return x

    def call(self, x):
        return x


class Threaded(Worker):
    def __init__(self, **kw):
        super().__init__(**kw)
        self.num_stream_threads = 4

    def call(self, x):
        time.sleep(0.02 if x % 2 else 0.001)
        return ('io', x)


def member(tag, delay_of, fail_of):
    class M(Worker):
        def call(self, x):
            time.sleep(delay_of(x))
            if fail_of(x):
                raise ValueError((tag, x))
            return (tag, x)
    M.__name__ = 'M' + tag
    return M


def expect_seq(x):
    if x % 10 == 5:
        return ('TypeError', ('pre', x))
    if x % 10 == 3:
        return ('ValueError', ('inc', x))
    return (x + 1) * 2


def outcome(y):
    if isinstance(y, BaseException):
        return (type(y).__name__, y.args[0] if y.args else None)
    return y


def run_requests(server, xs, expect, label, concurrent=True):
    got = {}

    def one(x):
        try:
            got[x] = outcome(server.call(x, timeout=20))
        except BaseException as e:
            got[x] = outcome(e)
            if isinstance(e, (ValueError, KeyError, TypeError)) and not is_remote_exception(e) and 'proc' in label:
                fails.append(f'{label}: exception for {x} lost its remote traceback')
    if concurrent:
        th = [threading.Thread(target=one, args=(x,)) for x in xs]
        for t in th: t.start()
        for t in th: t.join()
    else:
        for x in xs: one(x)
    for x in xs:
        w = expect(x)
        g = got.get(x)
        if callable(w):
            if not w(g):
                fails.append(f'{label}: request {x} got {g!r}')
        elif g != w:
            fails.append(f'{label}: request {x} got {g!r}, expected {w!r}')
    # stream: order + pairing
    out = list(server.stream(xs, return_x=True, return_exceptions=True))
    if [a for a, _ in out] != list(xs):
        fails.append(f'{label}: stream order broken')
    for a, y in out:
        w = expect(a)
        if callable(w):
            if not w(outcome(y)):
                fails.append(f'{label}: stream element {a} got {outcome(y)!r}')
        elif outcome(y) != w:
            fails.append(f'{label}: stream element {a} got {outcome(y)!r}, expected {w!r}')


if __name__ == '__main__':
    xs = list(range(40))
    # sequential: preprocess stage, failing stage, batched stage (a failing batch fails exactly its members)
    with Server(SequentialServlet(ThreadServlet(Pre), ThreadServlet(Inc, num_threads=2), ThreadServlet(Dbl)), capacity=64) as s:
        def exp(x):
            if x % 10 == 5: return ('TypeError', ('pre', x))
            if x % 10 == 3: return ('ValueError', ('inc', x))
            return lambda g: g == (x + 1) * 2 or (isinstance(g, tuple) and g[0] == 'KeyError' and (x + 1) in g[1][1])
        run_requests(s, xs, exp, 'sequential-thread')
    with Server(SequentialServlet(ProcessServlet(Pre), ProcessServlet(Inc, cpus=2)), capacity=64) as s:
        def exp2(x):
            if x % 10 == 5: return ('TypeError', ('pre', x))
            if x % 10 == 3: return ('ValueError', ('inc', x))
            return x + 1
        run_requests(s, xs[:24], exp2, 'sequential-proc')
    # in-worker thread pool: several requests inside one worker at once
    with Server(ThreadServlet(Threaded), capacity=64) as s:
        run_requests(s, xs, lambda x: ('io', x), 'stream-threads')

    # switch
    class Sw(SwitchServlet):
        def switch(self, x):
            return x % 3
    with Server(Sw(ThreadServlet(member('a', lambda x: 0, lambda x: False)), ThreadServlet(member('b', lambda x: 0.002, lambda x: x == 7)), ThreadServlet(member('c', lambda x: 0, lambda x: False))), capacity=64) as s:
        run_requests(s, xs[:20], lambda x: ('ValueError', ('b', 7)) if x == 7 else ('abc'[x % 3], x), 'switch')
    # an error coming from upstream passes through ensemble / switch untouched
    with Server(SequentialServlet(ThreadServlet(Inc), Sw(ThreadServlet(member('a', lambda x: 0, lambda x: False)), ThreadServlet(member('b', lambda x: 0, lambda x: False)), ThreadServlet(member('c', lambda x: 0, lambda x: False)))), capacity=64) as s:
        run_requests(s, xs[:12], lambda x: ('ValueError', ('inc', x)) if x % 10 == 3 else ('abc'[(x + 1) % 3], x + 1), 'sequential+switch')

    # ensemble: every arrival order of 3 members, with fail_fast on/off and each subset of failing members (on request 1 only)
    delays = [0.0, 0.08, 0.16]
    for order in itertools.permutations(range(3)):
        for failing in ([], [0], [1], [2], [0, 2], [0, 1, 2]):
            for ff in (True, False):
                ms = [member(str(i), (lambda d: (lambda x: d if x == 1 else 0))(delays[order[i]]), (lambda f: (lambda x: f and x == 1))(i in failing)) for i in range(3)]
                with Server(EnsembleServlet(*[ThreadServlet(m) for m in ms], fail_fast=ff), capacity=16) as s:
                    for x in (0, 1, 2):
                        try:
                            y = s.call(x, timeout=10)
                        except BaseException as e:
                            y = e
                        label = f'ensemble order={order} failing={failing} fail_fast={ff} request={x}'
                        if x != 1 or not failing:
                            if y != [(str(i), x) for i in range(3)]:
                                fails.append(f'{label}: got {outcome(y)!r}')
                        elif ff or len(failing) == 3:
                            if not isinstance(y, EnsembleError):
                                fails.append(f'{label}: expected EnsembleError, got {outcome(y)!r}')
                        else:
                            ok = isinstance(y, list) and len(y) == 3 and all((type(v).__name__ == 'RemoteException' or isinstance(v, BaseException)) if i in failing else v == (str(i), 1) for i, v in enumerate(y))
                            if not ok:
                                fails.append(f'{label}: got {outcome(y)!r}')
        if len(fails) > 10:
            break
    if fails:
        print('\n'.join(fails[:15])); print(len(fails), 'disagreements'); sys.exit(1)
    print('OK')
