"""C18 forced schedule on SocketClient.stream: the consumer's polling get() times out on an empty queue, and the thread is preempted right
there (the hook below holds it) while the feeder delivers the last element(s) + the end marker and finishes.  The stream must still
yield every element in order (legal schedule: a thread can be descheduled between any two bytecodes)."""
import asyncio, os, queue, shutil, sys, tempfile, threading, time
import mpservice.socket as ms
from mpservice.socket import SocketApplication, SocketClient, make_server
from mpservice.multiprocessing import MP_SPAWN_CTX

feeder_done = threading.Event()
armed = threading.Event()


class HeldLane(ms.SingleLane):
    def get(self, block=True, timeout=None):
        try:
            return super().get(block, timeout)
        except queue.Empty:
            if armed.is_set() and threading.current_thread() is threading.main_thread() and timeout:
                armed.clear()
                feeder_done.wait(10)        # preempted after the timeout expired, before looking at the feeder
                time.sleep(0.05)
            raise


def run_server(path):
    async def echo(x):
        return x
    app = SocketApplication()
    app.add_route('/', echo)
    asyncio.run(make_server(app, path=path).serve())


def data():
    yield 1
    yield 2
    armed.set()
    time.sleep(0.3)          # the consumer's 0.1 s poll expires on an empty queue meanwhile (and is held by the hook)
    yield 3


if __name__ == '__main__':
    tmp = tempfile.mkdtemp(prefix='c18r_')
    sock = os.path.join(tmp, 's')
    server = MP_SPAWN_CTX.Process(target=run_server, args=(sock,))
    server.start()
    rc = 0
    try:
        ms.SingleLane = HeldLane
        with SocketClient(path=sock, num_connections=1) as client:
            orig = client._executor.submit

            def submit(fn, *a, **k):
                def wrapped():
                    try:
                        return fn(*a, **k)
                    finally:
                        feeder_done.set()
                return orig(wrapped)
            client._executor.submit = submit
            try:
                got = list(client.stream('/', data(), response_timeout=20))
            except Exception as e:      # noqa: BLE001
                print(f'stream raised {type(e).__name__}: {e} instead of delivering the last element')
                rc = 1
            else:
                if got != [1, 2, 3]:
                    print('stream delivered', got)
                    rc = 1
            ms.SingleLane = HeldLane.__mro__[1]
            client.request('/shutdown', response_timeout=0)
    finally:
        server.join(20)
        if server.is_alive():
            server.terminate()
        shutil.rmtree(tmp, ignore_errors=True)
    print('OK' if rc == 0 else 'FAILED')
    os._exit(rc)
