"""C06 fallback battery: every accepted request gives its slot back -- whatever its OUTCOME IS -- so an idle server has backlog zero.
Servlet shapes (thread, sequential, ensemble with/without fail_fast, switch) x outcomes that are legitimate but falsy (None, 0, '', [], False, {}),
failures of one / all members, a timed-out request whose result arrives late; afterwards the server must be idle with backlog 0, still accept
`capacity` requests at once, and every non-failing request must have received exactly its own result."""
import faulthandler, sys, time, threading
from mpservice.mpserver import Server, Worker, ThreadServlet, SequentialServlet, EnsembleServlet, SwitchServlet, ServerBacklogFull

faulthandler.dump_traceback_later(90, exit=True)
fails = []
FALSY = {0: None, 1: 0, 2: '', 3: [], 4: False, 5: {}}


class Ident(Worker):
    def call(self, x):
        return x


class Falsy(Worker):
    """returns a legitimate falsy value for small inputs, fails for multiples of 7, is slow for 13"""

    def call(self, x):
        if x == 13:
            time.sleep(0.6)
        if x and x % 7 == 0:
            raise ValueError(x)
        return FALSY.get(x, x)


class Other(Worker):
    def call(self, x):
        if x and x % 14 == 0:
            raise KeyError(x)
        return None if x % 2 else x


class Pick(SwitchServlet):
    def switch(self, x):
        return x % 2


def expect(shape, x):
    f = 'ERR' if (x and x % 7 == 0) else FALSY.get(x, x)
    o = 'ERR' if (x and x % 14 == 0) else (None if x % 2 else x)
    if shape in ('thread', 'sequential'):
        return f
    if shape == 'switch':
        return f if x % 2 == 0 else o
    if shape == 'ensemble(fail_fast)':
        return 'ERR' if 'ERR' in (f, o) else [f, o]
    return 'ERR' if (f, o) == ('ERR', 'ERR') else [f, o]          # exceptions stay in their slots; compared loosely below


SHAPES = {
    'thread': lambda: ThreadServlet(Falsy, num_threads=2),
    'sequential': lambda: SequentialServlet(ThreadServlet(Ident), ThreadServlet(Falsy, num_threads=2)),
    'ensemble(fail_fast)': lambda: EnsembleServlet(ThreadServlet(Falsy), ThreadServlet(Other), fail_fast=True),
    'ensemble(collect)': lambda: EnsembleServlet(ThreadServlet(Falsy), ThreadServlet(Other), fail_fast=False),
    'switch': lambda: Pick(ThreadServlet(Falsy), ThreadServlet(Other)),
}


def norm(y):
    if isinstance(y, BaseException):
        return 'ERR'
    if isinstance(y, list) and any(hasattr(v, 'exc') or isinstance(v, BaseException) for v in y):
        return ['ERR' if (hasattr(v, 'exc') or isinstance(v, BaseException)) else v for v in y]
    return y


def run(shape, mk):
    cap = 4
    server = Server(mk(), capacity=cap)
    with server:
        # 1. a stream over inputs with falsy results and failures
        xs = list(range(0, 30))
        xs.remove(13)
        got = []
        lost = 0
        for x in xs:
            try:
                got.append(server.call(x, timeout=1.5))
            except Exception as e:      # noqa: BLE001
                if type(e).__name__ == 'TimeoutError':
                    lost += 1
                    if lost >= 3:
                        fails.append(f'{shape}: request {x} (and {lost - 1} before it) never got an outcome')
                        break
                got.append(e)
        for x, y in zip(xs, got):
            y = norm(y)
            if shape.startswith('ensemble'):
                f = 'ERR' if (x and x % 7 == 0) else FALSY.get(x, x)
                o = 'ERR' if (x and x % 14 == 0) else (None if x % 2 else x)
                want = 'ERR' if (('ERR' in (f, o)) if shape == 'ensemble(fail_fast)' else (f, o) == ('ERR', 'ERR')) else [f, o]
            else:
                want = expect(shape, x)
            if y != want:
                fails.append(f'{shape}: request {x} got {y!r}, expected {want!r}')
                break
        # 2. a request that times out; its result arrives late
        if shape in ('thread', 'sequential'):
            try:
                server.call(13, timeout=0.1)
                fails.append(f'{shape}: the slow request did not time out')
            except Exception as e:      # noqa: BLE001
                if type(e).__name__ != 'TimeoutError':
                    fails.append(f'{shape}: slow request raised {type(e).__name__}')
        # 3. idle: backlog must come back to 0
        deadline = time.perf_counter() + 5
        while server.backlog and time.perf_counter() < deadline:
            time.sleep(0.02)
        if server.backlog:
            fails.append(f'{shape}: the idle server keeps backlog {server.backlog} (a request never gave its slot back)')
            return
        # 4. and all `capacity` slots are usable again: `cap` concurrent callers with back-pressure are all accepted
        res = []

        def caller(i):
            try:
                res.append(('ok', server.call(20 + 2 * i, timeout=5, backpressure=True)))
            except ServerBacklogFull as e:
                res.append(('full', e))
            except Exception as e:      # noqa: BLE001
                res.append(('exc', e))
        ts = [threading.Thread(target=caller, args=(i,)) for i in range(cap)]
        for t in ts:
            t.start()
        for t in ts:
            t.join(10)
        if [r for r in res if r[0] == 'full']:
            fails.append(f'{shape}: an idle server with capacity {cap} refused one of {cap} concurrent requests')


if __name__ == '__main__':
    for shape, mk in SHAPES.items():
        try:
            run(shape, mk)
        except BaseException as e:      # noqa: BLE001
            fails.append(f'{shape}: unexpected {type(e).__name__}: {e}')
    if fails:
        print('\n'.join(fails[:12]))
        sys.stdout.flush()
        import os
        os._exit(1)
    print('OK')
