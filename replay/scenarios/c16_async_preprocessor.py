import asyncio
from mpservice.streamer import async_fifo_stream
async def src():
    for i in range(4): yield i
def pre(x):
    if x in (0,2): raise ValueError(x)
    return x
async def func(x):
    async def w(): return x*10
    return asyncio.get_running_loop().create_task(w())
async def main():
    out=[]
    async for z in async_fifo_stream(src(), func, preprocessor=pre, return_x=True, return_exceptions=True):
        out.append(z)
    print(out)
    assert [type(y).__name__ if isinstance(y,Exception) else y for _,y in out]==['ValueError',10,'ValueError',30]
asyncio.run(main())
