"""C12 battery: targets that end by raising exceptions of unusual classes -- constructors that do not accept a single string, classes whose repr/str raise,
BaseException subclasses, exceptions with a cause chain -- in a Thread and in a Process.  For each: join / result / exception / done / wait return in bounded time
and agree: the exception the target raised (its class and args) is what comes out, never a hang and never another error."""
import faulthandler, sys, time
from mpservice.threading import Thread, wait as twait
from mpservice.multiprocessing import Process, wait as pwait

faulthandler.dump_traceback_later(90, exit=True)
fails = []


class TwoArgs(Exception):
    def __init__(self, a, b):
        super().__init__(a, b)


class KwOnly(Exception):
    def __init__(self, *, code=7):
        super().__init__(code)


class NoArgs(Exception):
    def __init__(self):
        super().__init__('fixed')


class Validating(ValueError):
    def __init__(self, n):
        if not isinstance(n, int):
            raise TypeError('n must be an int')
        super().__init__(n)


class BadStr(Exception):
    def __str__(self):
        raise RuntimeError('no str')


class Base(BaseException):
    pass


def raiser(kind):
    if kind == 'TwoArgs':
        raise TwoArgs(1, 2)
    if kind == 'KwOnly':
        raise KwOnly(code=9)
    if kind == 'NoArgs':
        raise NoArgs()
    if kind == 'Validating':
        raise Validating(3)
    if kind == 'BadStr':
        raise BadStr('x')
    if kind == 'Base':
        raise Base('b')
    if kind == 'chained':
        try:
            raise KeyError('k')
        except KeyError as e:
            raise TwoArgs('from', 'key') from e
    return kind


KINDS = {'TwoArgs': (TwoArgs, (1, 2)), 'KwOnly': (KwOnly, (9,)), 'NoArgs': (NoArgs, ('fixed',)), 'Validating': (Validating, (3,)), 'BadStr': (BadStr, ('x',)), 'Base': (Base, ('b',)),
         'chained': (TwoArgs, ('from', 'key')), 'fine': (None, None)}


def bounded(label, f, limit=20):
    box = {}
    import threading

    def run():
        try:
            box['v'] = ('ok', f())
        except BaseException as e:      # noqa: BLE001
            box['v'] = ('exc', e)
    t = threading.Thread(target=run, daemon=True)
    t.start()
    t.join(limit)
    if t.is_alive():
        fails.append(f'{label}: did not return within {limit} s')
        return ('hang', None)
    return box['v']


def check(worker_kind, mk, waitfn, picklable_only):
    for kind, (cls, args) in KINDS.items():
        if picklable_only and kind in ('KwOnly', 'NoArgs'):
            continue            # these classes do not survive pickling by Python's own rules (reconstructed as cls(*args)): not the library's doing
        w = mk(kind)
        w.start()
        label = f'{worker_kind} target raising {kind}'
        done, notdone = bounded(label + ': wait()', lambda: waitfn([w], timeout=15))[1] or (set(), {w})
        if w not in done:
            fails.append(f'{label}: wait() does not report it done')
            continue
        r = bounded(label + ': join()', w.join)
        e = bounded(label + ': exception()', w.exception)
        res = bounded(label + ': result()', w.result)
        if 'hang' in (r[0], e[0], res[0]):
            continue
        if cls is None:
            if r != ('ok', None) or e != ('ok', None) or res != ('ok', kind):
                fails.append(f'{label}: join {r}, exception {e}, result {res}')
            continue
        for name, got in (('join', r), ('result', res)):
            if got[0] != 'exc' or type(got[1]).__name__ != cls.__name__ or tuple(got[1].args) != args:
                fails.append(f'{label}: {name}() gave {got!r} instead of raising {cls.__name__}{args}')
        if e[0] != 'ok' or type(e[1]).__name__ != cls.__name__ or tuple(e[1].args) != args:
            fails.append(f'{label}: exception() gave {e!r} instead of returning {cls.__name__}{args}')
        if not w.done():
            fails.append(f'{label}: done() is False after join')


if __name__ == '__main__':
    check('Thread', lambda kind: Thread(target=raiser, args=(kind,)), twait, False)
    check('Process', lambda kind: Process(target=raiser, args=(kind,)), pwait, True)
    if fails:
        print('\n'.join(fails[:15]))
        sys.stdout.flush()
        import os
        os._exit(1)
    print('OK')
