"""C14 runtime battery (bounded, seeded): random operation sequences issued through several proxies of the same hosted object,
from threads and a child process, compared with the same sequence on a local reference object -- results, raised exception
type/args, server-side traceback text, state seen through every proxy, managed() return values being live proxies."""
import random, sys, os, threading, traceback
from mpservice.multiprocessing import SpawnProcess
from mpservice.multiprocessing.server_process import ServerProcess, managed, managed_list, managed_dict
from mpservice.multiprocessing.remote_exception import is_remote_exception, get_remote_traceback

fails = []


class Account:
    def __init__(self, balance=0):
        self.balance = balance
        self.log = []

    def deposit(self, n, *, note=None):
        if not isinstance(n, int):
            raise TypeError('amount must be int', n)
        if n < 0:
            raise ValueError('negative amount', n, note)
        self.balance += n
        self.log.append(('deposit', n, note))
        return self.balance

    def withdraw(self, n):
        if n > self.balance:
            raise OverflowError(self.balance, n)
        self.balance -= n
        self.log.append(('withdraw', n))
        return self.balance

    def history(self):
        return list(self.log)

    def lookup(self, key):
        return {'a': 1}[key]

    def history_proxy(self):
        return managed_list(self.log)        # a live proxy to the hosted list, not a copy

    def meta(self):
        return {'balance': self.balance, 'log': managed(self.log, typeid='ManagedList')}

    def flaky(self, kind):
        # a side effect, then an exception of a class that transports also use
        self.log.append(('flaky', kind))
        raise {'reset': ConnectionResetError, 'pipe': BrokenPipeError, 'eof': EOFError, 'os': OSError, 'timeout': TimeoutError}[kind](kind, 'from the hosted method')

    def child(self, balance):
        return managed(Account(balance))       # hosts this very object (registry entry 'ManagedAccount' without callable)


ServerProcess.register('Account', Account)


class Square:
    def side(self):
        return 3

    def area(self):
        return 9


class Circle:
    def radius(self):
        return 2

    def area(self):
        return 12


def make_shape(kind):
    return Square() if kind == 'square' else Circle()


ServerProcess.register('Shape', make_shape)      # one typeid, objects with different method sets


def outcome(f, *a, **k):
    try:
        return ('ret', f(*a, **k))
    except Exception as e:      # noqa: BLE001
        return ('exc', type(e).__name__, e.args, e)


def same(o1, o2):
    if o1[0] != o2[0]:
        return False
    if o1[0] == 'ret':
        return o1[1] == o2[1] and type(o1[1]) is type(o2[1])
    return o1[1:3] == o2[1:3]        # exception type name and args


LIST_OPS = [
    lambda r: ('append', (r.randrange(9),), {}), lambda r: ('extend', ([r.randrange(9), 'x'],), {}), lambda r: ('insert', (r.randrange(-2, 6), r.randrange(9)), {}),
    lambda r: ('pop', (), {}), lambda r: ('pop', (r.randrange(-3, 8),), {}), lambda r: ('remove', (r.randrange(9),), {}), lambda r: ('index', (r.randrange(9),), {}),
    lambda r: ('count', (r.randrange(9),), {}), lambda r: ('reverse', (), {}), lambda r: ('__getitem__', (r.randrange(-3, 8),), {}), lambda r: ('__setitem__', (r.randrange(-3, 8), (1, [2])), {}),
    lambda r: ('__delitem__', (r.randrange(-3, 8),), {}), lambda r: ('__len__', (), {}), lambda r: ('__contains__', (r.randrange(9),), {}), lambda r: ('sort', (), {}),
    lambda r: ('sort', (), {'reverse': True}), lambda r: ('__getitem__', (slice(1, r.randrange(5)),), {}), lambda r: ('__mul__', (2,), {}), lambda r: ('__add__', ([1],), {}), lambda r: ('__add__', (5,), {}),
]
DICT_OPS = [
    lambda r: ('__setitem__', (r.choice('abcd'), r.randrange(9)), {}), lambda r: ('__getitem__', (r.choice('abcdz'),), {}), lambda r: ('__delitem__', (r.choice('abcdz'),), {}),
    lambda r: ('get', (r.choice('abz'), 'dflt'), {}), lambda r: ('pop', (r.choice('abz'),), {}), lambda r: ('pop', (r.choice('abz'), None), {}), lambda r: ('setdefault', (r.choice('abe'), [1]), {}),
    lambda r: ('update', ({'k': r.randrange(5)},), {'kw': 1}), lambda r: ('__len__', (), {}), lambda r: ('__contains__', (r.choice('abz'),), {}), lambda r: ('copy', (), {}),
    lambda r: ('popitem', (), {}), lambda r: ('clear', (), {}), lambda r: ('__setitem__', ([1], 2), {}), lambda r: ('update', (5,), {}),
]
ACCT_OPS = [
    lambda r: ('deposit', (r.randrange(-3, 20),), {}), lambda r: ('deposit', (r.randrange(20),), {'note': 'n%d' % r.randrange(3)}), lambda r: ('deposit', ('x',), {}), lambda r: ('withdraw', (r.randrange(30),), {}),
    lambda r: ('history', (), {}), lambda r: ('lookup', (r.choice('ab'),), {}), lambda r: ('nosuchmethod', (), {}), lambda r: ('deposit', (), {}),
]


def drive(kind, make_proxy, make_local, ops, seed, steps=60):
    r = random.Random(seed)
    local = make_local()
    proxies = [make_proxy()]
    import pickle
    proxies.append(pickle.loads(pickle.dumps(proxies[0])))         # a second proxy of the same hosted object
    for i in range(steps):
        name, a, k = r.choice(ops)(r)
        p = proxies[i % 2]
        want = outcome(lambda: getattr(local, name)(*a, **k))
        got = outcome(lambda: getattr(p, name)(*a, **k))
        if name == 'nosuchmethod':      # not a method of the hosted object: only the exception type is comparable (the message names the class)
            want, got = want[:2], got[:2]
        if not same(want, got):
            fails.append(f'{kind} seed {seed} step {i}: {name}{a}{k}: direct {want[:3]} vs proxy {got[:3]}')
            return
        if got[0] == 'exc' and name != 'nosuchmethod':
            e = got[3]
            if not is_remote_exception(e) or type(want[3]).__name__ not in get_remote_traceback(e):
                fails.append(f'{kind} seed {seed} step {i}: {name}: exception came back without the server-side traceback')
                return
    return local, proxies


def thread_worker(proxy, out, n):
    for i in range(n):
        out.append(outcome(proxy.deposit, 1))


def child_worker(acct, lst, ns):
    r = []
    r.append(outcome(acct.deposit, 5, note='child'))
    r.append(outcome(acct.withdraw, 10 ** 6)[:3])
    r.append(outcome(acct.deposit, 1))
    lst.append('from-child')
    ns.flag = 'set-in-child'
    return r


def main():
    first, nseeds, steps = (int(a) for a in sys.argv[1:4]) if len(sys.argv) > 3 else (0, 6, 60)
    with ServerProcess() as m:
        for seed in range(first, first + nseeds):
            x = drive('list', lambda: m.list([3, 1, 2]), lambda: [3, 1, 2], LIST_OPS, seed, steps)
            if x:
                local, proxies = x
                if proxies[0].__getitem__(slice(None)) != local or proxies[1].__len__() != len(local):
                    fails.append(f'list seed {seed}: final state differs between proxies and reference')
            x = drive('dict', lambda: m.dict({'a': 1, 'b': 2}), lambda: {'a': 1, 'b': 2}, DICT_OPS, seed, steps)
            if x:
                local, proxies = x
                if proxies[0].copy() != local or proxies[1].copy() != local:
                    fails.append(f'dict seed {seed}: final state differs')
            x = drive('custom', lambda: m.Account(10), lambda: Account(10), ACCT_OPS, seed, steps)
            if x:
                local, proxies = x
                if proxies[1].history() != local.log:
                    fails.append(f'custom seed {seed}: final state differs')
        # exceptions of "transport-like" classes raised BY THE METHOD: raised in the caller as they are, and the method ran exactly once
        acct0 = m.Account(0)
        for kind, cls in (('reset', ConnectionResetError), ('pipe', BrokenPipeError), ('eof', EOFError), ('os', OSError), ('timeout', TimeoutError)):
            o = outcome(acct0.flaky, kind)
            if o[:3] != ('exc', cls.__name__, (kind, 'from the hosted method')):
                fails.append(f'method raising {cls.__name__}: caller saw {o[:3]}')
        ran = [x for x in acct0.history() if x[0] == 'flaky']
        if ran != [('flaky', k) for k in ('reset', 'pipe', 'eof', 'os', 'timeout')]:
            fails.append(f'a failing method did not run exactly once per call: {ran}')
        if acct0.deposit(1) != 1:
            fails.append('connection unusable after the method raised a transport-like exception')
        # one typeid, objects with different public methods: each proxy exposes ITS object's methods
        c, sq = m.Shape('circle'), m.Shape('square')
        o1, o2 = outcome(lambda: c.radius()), outcome(lambda: sq.side())
        if o1 != ('ret', 2) or o2 != ('ret', 3) or sq.area() != 9 or c.area() != 12:
            fails.append(f'two objects registered under one typeid: circle.radius() -> {o1[:3]}, square.side() -> {o2[:3]}')
        # keyword arguments of ANY name round-trip -- also one called `self` (the generated proxy methods take their own receiver positional-only)
        pd, ld = m.dict(), {}
        for kw in ({'self': 1}, {'args': 2, 'kwargs': 3}, {'meth': 4, 'key': 5}):
            o1, o2 = outcome(lambda: pd.update(**kw)), outcome(lambda: ld.update(**kw))
            if o1[:2] != o2[:2]:
                fails.append(f'dict.update(**{kw}): direct {o2[:3]} vs proxy {o1[:3]}')
        if dict(pd.items()) != ld:
            fails.append(f'dict state after keyword updates: proxy {dict(pd.items())} vs direct {ld}')
        # Value / Namespace
        v = m.Value('i', 3)
        if v.get() != 3 or v.value != 3:
            fails.append('Value.get')
        v.set(9)
        v.value += 1
        if v.value != 10:
            fails.append('Value.set / value property')
        try:
            ns = m.Namespace()
            ns.a = [1, 2]
            ns.b = 'text'
            if ns.a != [1, 2] or ns.b != 'text':
                fails.append('Namespace attribute round trip')
            del ns.b
            o = outcome(lambda: ns.b)
            if o[:2] != ('exc', 'AttributeError'):
                fails.append(f'Namespace deleted attribute: {o[:3]}')
            o = outcome(lambda: ns.missing)
            if o[:2] != ('exc', 'AttributeError'):
                fails.append(f'Namespace missing attribute: {o[:3]}')
        except RecursionError:
            fails.append('Namespace proxy: RecursionError on attribute access (generated __getattribute__ on the proxy class)')
            ns = None
        # managed() values are live proxies
        acct = m.Account(0)
        acct.deposit(4)
        h = acct.history_proxy()
        acct.deposit(6)
        if type(h).__name__ != 'ListProxy' or h.__len__() != 2 or h[1] != ('deposit', 6, None):
            fails.append('managed_list return value is not a live view of the hosted list')
        h.append('via-proxy')
        if acct.history()[-1] != 'via-proxy':
            fails.append('mutation through the managed proxy is not visible on the hosted object')
        # the same hosted value wrapped twice: dropping one proxy must not take the value away from the other
        h2 = acct.history_proxy()
        del h
        import gc
        gc.collect()
        o = outcome(lambda: h2[-1])
        if o != ('ret', 'via-proxy'):
            fails.append(f'second proxy of the same managed value unusable after the first was dropped: {o[:3]}')
        h2.pop()
        meta = acct.meta()
        acct.deposit(1)
        if meta['balance'] != 10 or meta['log'].__len__() != 3:
            fails.append('nested managed value inside a returned dict is not a live proxy')
        kid = acct.child(7)
        if kid.deposit(1) != 8 or kid.history() != [('deposit', 1, None)]:
            fails.append('managed(custom object) proxy does not behave like the object')
        # same object from threads and a child process; errors interleaved with successes; connection stays usable
        out = []
        ths = [threading.Thread(target=thread_worker, args=(acct, out, 25)) for _ in range(4)]
        before = acct.deposit(0)
        for t in ths:
            t.start()
        for t in ths:
            t.join()
        if sorted(o[1] for o in out) != list(range(before + 1, before + 101)):
            fails.append('concurrent deposits through one proxy from 4 threads: results are not the 100 successive balances')
        lst = m.list()
        ns2 = ns if ns is not None else m.dict()
        p = SpawnProcess(target=child_worker, args=(acct, lst, ns2) if ns is not None else (acct, lst, acct))
        if ns is not None:
            p.start()
            p.join()
            r = p.result()
            b = before + 100
            if r != [('ret', b + 5), ('exc', 'OverflowError', (b + 5, 10 ** 6)), ('ret', b + 6)]:
                fails.append(f'child process calls: {r}')
            if lst.__len__() != 1 or lst[0] != 'from-child' or ns.flag != 'set-in-child' or acct.history()[-1] != ('deposit', 1, None):
                fails.append('state changes made in the child process are not visible through the parent\'s proxies')
    if fails:
        print('\n'.join(fails[:30]))
        sys.exit(1)
    print('OK')


if __name__ == '__main__':
    main()
