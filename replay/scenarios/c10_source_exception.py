import threading, faulthandler
from mpservice.streamer import tee
faulthandler.dump_traceback_later(10, exit=True)
def src(n):
    for i in range(n):
        yield i
    raise ValueError('boom')
for n in (0, 1, 5, 20):
    a, b, c = tee(src(n), 3, buffer_size=4)
    res = {}
    def run(name, s):
        out = []
        try:
            for x in s: out.append(x)
            res[name] = (out, 'exhausted')
        except Exception as e:
            res[name] = (out, repr(e))
    ts = [threading.Thread(target=run, args=(k, s)) for k, s in zip('abc', (a, b, c))]
    for t in ts: t.start()
    for t in ts: t.join()
    print(n, res)
    for k in 'abc':
        assert res[k] == (list(range(n)), "ValueError('boom')"), (n, k, res[k])
print('ALL OK')
