"""C09: lost wake-up in Worker._build_input_batches: the collector tests buffer.full() outside the mutex and then waits without
re-checking; if the consumer drains the buffer in between, nobody ever notifies and every later request starves."""
import threading, time, faulthandler, sys
from mpservice.mpserver import Server, ThreadServlet, Worker
from mpservice import _queues
faulthandler.dump_traceback_later(40, exit=True)
gate = threading.Event()      # released when the consumer has drained the buffer
slow = threading.Event()      # while clear, call() blocks (lets the buffer fill up)


class W(Worker):
    def __init__(self, **kw):
        super().__init__(batch_size=2, batch_wait_time=0.01, **kw)

    def call(self, xs):
        slow.wait()
        return xs


orig_full = _queues.SingleLane.full
state = {'armed': True}


def hooked_full(self):
    r = orig_full(self)
    # the collector thread is descheduled right after `buffer.full()` returned True
    if r and state['armed'] and threading.current_thread().name.endswith('_build_input_batches'):
        state['armed'] = False
        slow.set()            # the consumer now runs at full speed ...
        gate.wait(10)         # ... and drains the whole buffer meanwhile
    return r


_queues.SingleLane.full = hooked_full
server = Server(ThreadServlet(W), capacity=64)
with server:
    futs = [server._enqueue(i, 60, False) for i in range(20)]     # more than the buffer (batch_size + 10 = 12) holds
    time.sleep(1.0)
    # wait until the first 12+ results are out, i.e. the consumer has drained the buffer and idles in buffer.get()
    t0 = time.time()
    while sum(f.done() for f in futs) < 12 and time.time() - t0 < 10:
        time.sleep(0.05)
    time.sleep(0.3)
    gate.set()
    try:
        for f in futs:
            f.result(5)
        print('all 20 requests served; a lone later request:', server.call(99, timeout=5))
    except Exception as e:
        print('STARVED:', repr(e), 'served', sum(f.done() for f in futs), 'of 20')
        import os
        os._exit(1)
print('OK')
