import time, gc
from mpservice.multiprocessing import Process
from mpservice.multiprocessing.server_process import ServerProcess
from multiprocessing.managers import dispatch

def child(p):
    p.append(1)
    return len(p)

def info(server):
    conn = server._Client(server._address, authkey=server._authkey)
    try:
        return dispatch(conn, None, 'debug_info')
    finally:
        conn.close()

if __name__ == '__main__':
    with ServerProcess() as server:
        lst = server.list()
        print('after create', info(server))
        p = Process(target=child, args=(lst,))
        p.start()
        print('child result', p.result())
        del p
        gc.collect()
        time.sleep(0.5)
        print('after child exit', info(server))
        del lst
        gc.collect()
        time.sleep(0.5)
        print('after del (expect gone)', info(server))
