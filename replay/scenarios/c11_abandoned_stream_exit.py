import time, faulthandler, threading, multiprocessing, sys
from mpservice.mpserver import Server, ProcessServlet, ThreadServlet, EnsembleServlet, SwitchServlet, SequentialServlet, Worker
faulthandler.dump_traceback_later(60, exit=True)
class Slow(Worker):
    def call(self, x):
        time.sleep(0.01)
        return x
class Sw(SwitchServlet):
    def switch(self, x): return 0
def mk(kind):
    if kind == 'process': return ProcessServlet(Slow)
    if kind == 'sequential': return SequentialServlet(ProcessServlet(Slow), ThreadServlet(Slow))
    if kind == 'ensemble': return EnsembleServlet(ProcessServlet(Slow), ProcessServlet(Slow))
    if kind == 'switch': return Sw(ProcessServlet(Slow), ProcessServlet(Slow))
if __name__ == '__main__':
    for kind in sys.argv[1:] or ['process', 'sequential', 'ensemble', 'switch']:
        server = Server(mk(kind), capacity=256)
        for cycle in range(2):      # the same server object is entered twice
            with server:
                data = ('x' * 1000 for _ in range(200))
                for k, y in enumerate(server.stream(data)):
                    if k == 2:
                        break          # abandon the stream: ~197 inputs of 1 kB already accepted
            left = [t.name for t in threading.enumerate() if t is not threading.main_thread() and t.name != 'QueueFeederThread']
            print(kind, 'cycle', cycle, 'exited; threads', left, multiprocessing.active_children())
            assert not left and not multiprocessing.active_children()
    print('ALL OK')
