"""C16 differential battery: the async variants give the same answers as their sync counterparts -- values, exception OBJECTS (class and args), order, pairing with
inputs -- for the same inputs, worker behaviour, preprocessor and flags:  Server.call/stream vs AsyncServer.call/stream;  Stream.parmap (thread executor) vs
AsyncStream.parmap (sync worker on an executor; async worker).  Worker behaviours include exceptions of awkward classes (builtin TimeoutError, two-argument
constructors, a raising __str__)."""
import asyncio, faulthandler, sys
from mpservice.mpserver import Server, AsyncServer, Worker, ThreadServlet
from mpservice.streamer import Stream
from mpservice.streamer._streamer_async import AsyncStream

faulthandler.dump_traceback_later(100, exit=True)
fails = []


class ApiError(Exception):
    def __init__(self, code, reason):
        super().__init__(code, reason)

    def __str__(self):
        return '%s (code %d)' % self.args          # wrong number of arguments: str() of this exception raises TypeError


def behave(x):
    if x % 11 == 3:
        raise ValueError(x)
    if x % 11 == 5:
        raise TimeoutError('upstream timed out', x)         # the builtin class, raised by the WORKER (its own deadline is far away)
    if x % 11 == 6:
        raise ApiError(x, 'bad')
    if x % 11 == 8:
        raise KeyError(x, 'two', 'args')
    return x * 10


async def abehave(x):
    return behave(x)


def pre(x):
    if x % 7 == 4:
        raise LookupError('rejected', x)
    return x


class W(Worker):
    def call(self, x):
        return behave(x)


def norm(y):
    if isinstance(y, tuple) and len(y) == 2 and not isinstance(y[0], str):
        return (norm(y[0]), norm(y[1]))
    if isinstance(y, BaseException):
        name = type(y).__name__
        return ('EXC', name, tuple(y.args) if name not in ('TimeoutError',) or len(y.args) != 1 else ('<server timeout message>',))
    return y


def outcome(f):
    try:
        return norm(f())
    except BaseException as e:      # noqa: BLE001
        return ('RAISED',) + norm(e)[1:]


XS = list(range(24))


def servers():
    # call
    with Server(ThreadServlet(W, num_threads=2), capacity=8) as s:
        sync_calls = [outcome(lambda: s.call(x, timeout=20)) for x in XS]
        sync_streams = {}
        for rx in (False, True):
            for pp in (None, pre):
                sync_streams[rx, pp is not None] = outcome(lambda: list(s.stream(XS, return_x=rx, return_exceptions=True, preprocessor=pp, timeout=20)))
        sync_fail = outcome(lambda: list(s.stream(XS, timeout=20)))

    async def axs():
        for x in XS:
            yield x

    async def arun():
        async with AsyncServer(ThreadServlet(W, num_threads=2), capacity=8) as a:
            calls = []
            for x in XS:
                try:
                    calls.append(norm(await a.call(x, timeout=20)))
                except BaseException as e:      # noqa: BLE001
                    calls.append(('RAISED',) + norm(e)[1:])
            streams = {}
            for rx in (False, True):
                for pp in (None, pre):
                    try:
                        streams[rx, pp is not None] = [norm(y) async for y in a.stream(axs(), return_x=rx, return_exceptions=True, preprocessor=pp, timeout=20)]
                    except BaseException as e:      # noqa: BLE001
                        streams[rx, pp is not None] = ('RAISED',) + norm(e)[1:]
            try:
                fail = [norm(y) async for y in a.stream(axs(), timeout=20)]
            except BaseException as e:      # noqa: BLE001
                fail = ('RAISED',) + norm(e)[1:]
            return calls, streams, fail
    acalls, astreams, afail = asyncio.run(arun())
    for x, a, b in zip(XS, sync_calls, acalls):
        if a != b:
            fails.append(f'call({x}): Server {a}  vs  AsyncServer {b}')
    for k in sync_streams:
        a, b = sync_streams[k], astreams[k]
        a = [norm(v) for v in a] if isinstance(a, list) else a
        if a != b:
            d = next((i for i, (p, q) in enumerate(zip(a, b)) if p != q), None) if isinstance(a, list) and isinstance(b, list) else None
            fails.append(f'stream(return_x={k[0]}, preprocessor={k[1]}): differ' + (f' at element {d}: Server {a[d]}  vs  AsyncServer {b[d]}' if d is not None else f': {str(a)[:120]} vs {str(b)[:120]}'))
    if sync_fail != afail:
        fails.append(f'stream without return_exceptions: Server {sync_fail}  vs  AsyncServer {afail}')


def parmaps():
    for rx in (False, True):
        for pp in (None, pre):
            kw = dict(return_x=rx, return_exceptions=True)
            want = outcome(lambda: list(Stream(XS).parmap(behave, executor='thread', concurrency=3, preprocessor=pp, **kw)))
            want = [norm(v) for v in want] if isinstance(want, list) else want

            async def arun(mk):
                try:
                    return [norm(y) async for y in mk()]
                except BaseException as e:      # noqa: BLE001
                    return ('RAISED',) + norm(e)[1:]

            async def asrc():
                for x in XS:
                    yield x
            variants = {
                'Stream.parmap(async worker)': lambda: outcome(lambda: list(Stream(XS).parmap(abehave, concurrency=3, preprocessor=pp, **kw))),
            }
            if pp is None:      # AsyncStream.parmap has no preprocessor parameter
                variants['AsyncStream.parmap(sync worker on a thread executor)'] = lambda: asyncio.run(arun(lambda: AsyncStream(asrc()).parmap(behave, executor='thread', concurrency=3, **kw)))
                variants['AsyncStream.parmap(async worker)'] = lambda: asyncio.run(arun(lambda: AsyncStream(asrc()).parmap(abehave, concurrency=3, **kw)))
            for name, run in variants.items():
                got = run()
                got = [norm(v) for v in got] if isinstance(got, list) else got
                if got != want:
                    d = next((i for i, (p, q) in enumerate(zip(got, want)) if p != q), None) if isinstance(got, list) and isinstance(want, list) else None
                    fails.append(f'{name}, return_x={rx}, preprocessor={pp is not None}: differs from Stream.parmap(sync worker)' + (f' at element {d}: {got[d]} vs {want[d]}' if d is not None else f': {str(got)[:150]}'))


if __name__ == '__main__':
    servers()
    parmaps()
    if fails:
        print('\n'.join(fails[:15]))
        sys.stdout.flush()
        import os
        os._exit(1)
    print('OK')
