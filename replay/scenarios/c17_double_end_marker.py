import threading, queue, faulthandler
from mpservice.queue import IterableQueue
faulthandler.dump_traceback_later(20, exit=True)
# force: two suppliers ended; consumers A and B each take one end marker; both move their token before either tests `full()`
class UsedQ(queue.Queue):
    barrier = None
    def put(self, item, *a, **k):
        super().put(item, *a, **k)
        if self.barrier is not None:
            try: self.barrier.wait(timeout=2)      # both consumers have moved their token before either calls full()
            except threading.BrokenBarrierError: pass
q = IterableQueue(queue.Queue(), num_suppliers=2)
used = UsedQ(maxsize=2); q._used_lids = used
q.put('a'); q.put_end(); q.put('b'); q.put_end()
used.barrier = threading.Barrier(2)
got = []
def consume():
    for x in q: got.append(x)
ts = [threading.Thread(target=consume) for _ in range(2)]
for t in ts: t.start()
for t in ts: t.join()
used.barrier = None
inner = q._q
print('items received', sorted(got), '| end markers left in the queue after the round:', list(inner.queue))
q.renew()
print('after renew, queue content (should be empty):', list(inner.queue))
