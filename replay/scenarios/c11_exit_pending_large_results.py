"""KNOWN FINDING (C11), reproduction on the real code: leaving a server while requests ABANDONED by a closed stream are still in the pipeline, when the last stage
writes large results to a pipe-backed output queue from several worker processes -- or from one batching worker process, whose collector thread forwards the end
marker ahead of the results still being computed.  The gather thread stops at the first end marker; the other writers then block in q_out.put (pipe full, no reader)
and ProcessServlet.stop() joins them forever: Server.__exit__ never returns.

usage: c11_exit_pending_large_results.py [several-workers|batch-worker|controls]
exit 0: every `with server:` block was left within the limit;  exit 1: one was not (the finding reproduces)."""
import faulthandler, multiprocessing, os, sys, threading, time
from mpservice.mpserver import Server, Worker, ProcessServlet, ThreadServlet

LIMIT = 25


class Big(Worker):
    def call(self, xs):
        time.sleep(0.2)
        if isinstance(xs, list):
            return [b'x' * 300_000 for _ in xs]
        return b'x' * 300_000


def leave_with_abandoned_requests(servlet):
    done = threading.Event()

    def body():
        server = Server(servlet, capacity=64)
        with server:
            it = server.stream(range(60), timeout=30)
            next(it)
            it.close()          # the other requests are abandoned; their results are still being computed
        done.set()
    t = threading.Thread(target=body, daemon=True)
    t.start()
    return done.wait(LIMIT)


CASES = {
    'several-workers': lambda: ProcessServlet(Big, cpus=3),
    'batch-worker': lambda: ProcessServlet(Big, batch_size=4, batch_wait_time=0.01),
}
CONTROLS = {        # the same workload where the finding does not apply: thread queues never block their writers
    'several-threads': lambda: ThreadServlet(Big, num_threads=3),
    'batch-thread': lambda: ThreadServlet(Big, batch_size=4, batch_wait_time=0.01),
    'one-process': lambda: ProcessServlet(Big),
}

if __name__ == '__main__':
    which = sys.argv[1] if len(sys.argv) > 1 else 'all'
    cases = dict(CONTROLS) if which == 'controls' else ({which: CASES[which]} if which in CASES else dict(CASES))
    bad = []
    for name, mk in cases.items():
        ok = leave_with_abandoned_requests(mk())
        print(f'{name}: ' + ('left the context in time' if ok else f'Server.__exit__ did not return within {LIMIT} s'), flush=True)
        if not ok:
            bad.append(name)
            for p in multiprocessing.active_children():
                p.kill()
    os._exit(1 if bad else 0)
