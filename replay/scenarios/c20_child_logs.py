"""C20 replay: n records of `size` bytes logged right before the child returns / raises / exits; all must be handled once, in order."""
import logging, sys, faulthandler
from mpservice.multiprocessing import Process
faulthandler.dump_traceback_later(60, exit=True)


def target(n, size, how):
    lg = logging.getLogger('child')
    for i in range(n):
        lg.warning('%d %s', i, 'x' * size)
    lg.debug('-1 below the parent level')
    if how == 'raise':
        raise ValueError(n)
    if how == 'exit':
        sys.exit(3)
    return n


class H(logging.Handler):
    def __init__(self):
        super().__init__()
        self.got = []

    def emit(self, record):
        self.got.append(int(record.getMessage().split()[0]))


if __name__ == '__main__':
    n, size = int(sys.argv[1]), int(sys.argv[2])
    for how in ('return', 'raise', 'exit'):
        h = H()
        root = logging.getLogger()
        root.addHandler(h)
        root.setLevel(logging.INFO)
        p = Process(target=target, args=(n, size, how))
        p.start()
        try:
            r = p.result(timeout=40)
            assert how == 'return' and r == n, (how, r)
        except ValueError:
            assert how == 'raise'
        except SystemExit:
            assert how == 'exit'
        root.removeHandler(h)
        assert p.exitcode is not None, 'child never exited'
        assert h.got == list(range(n)), (how, len(h.got), n, h.got[-5:])
    print('OK')
