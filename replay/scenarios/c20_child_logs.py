"""C20 replay: n records of `size` bytes logged right before the child returns / raises / exits; all must be handled once, in order."""
import logging, sys, faulthandler
from mpservice.multiprocessing import Process
faulthandler.dump_traceback_later(60, exit=True)


def target(n, size, how):
    lg = logging.getLogger('child')
    for i in range(n):
        lg.warning('%d %s', i, 'x' * size)
    lg.debug('-1 below the parent level')
    logging.getLogger('app.audit').info('-2 named logger more verbose than the parent root')
    if how == 'raise':
        raise ValueError(n)
    if how == 'exit':
        sys.exit(3)
    return n


class H(logging.Handler):
    def __init__(self):
        super().__init__()
        self.got = []
        self.audit = 0

    def emit(self, record):
        i = int(record.getMessage().split()[0])
        if i == -2:
            self.audit += 1
        else:
            self.got.append(i)


if __name__ == '__main__':
    n, size = int(sys.argv[1]), int(sys.argv[2])
    for how in ('return', 'raise', 'exit'):
        h = H()
        root = logging.getLogger()
        root.addHandler(h)
        root.setLevel(logging.INFO if how != 'raise' else logging.WARNING)
        logging.getLogger('app.audit').setLevel(logging.DEBUG)      # only the parent's level settings decide: this record must be handled
        p = Process(target=target, args=(n, size, how))
        p.start()
        try:
            r = p.result(timeout=40)
            assert how == 'return' and r == n, (how, r)
        except ValueError:
            assert how == 'raise'
        except SystemExit:
            assert how == 'exit'
        root.removeHandler(h)
        assert p.exitcode is not None, 'child never exited'
        assert h.got == list(range(n)), (how, len(h.got), n, h.got[-5:])
        assert h.audit == 1, f'record of a logger the parent configured at DEBUG was handled {h.audit} times ({how}): filtered in the child?'
    print('OK')
