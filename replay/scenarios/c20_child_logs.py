"""C20 replay: n records of `size` bytes logged right before the child returns / raises / exits; all must be handled once, in order."""
import logging, sys, faulthandler
from mpservice.multiprocessing import Process
faulthandler.dump_traceback_later(60, exit=True)


def target(n, size, how):
    lg = logging.getLogger('child')
    for i in range(n):
        lg.warning('%d %s', i, 'x' * size)
    lg.debug('-1 below the parent level')
    logging.getLogger('app.audit').info('-2 named logger more verbose than the parent root')
    if how == 'raise':
        raise ValueError(n)
    if how == 'exit':
        sys.exit(3)
    return n


class Noisy:
    """a result that logs while it is being pickled for the trip to the parent (the very last thing the child does)"""
    def __reduce__(self):
        logging.getLogger('child').warning('1000 logged while the result is pickled')
        return (int, (7,))


class HookProcess(Process):
    """a subclass using the documented hook: what it logs about the failure is emitted after the target has ended"""
    @staticmethod
    def handle_exception(exc):
        logging.getLogger('child').warning('2000 logged by the handle_exception hook: %r', exc)


class OddArg:
    """a log argument that cannot be pickled: the record's message is formatted in the child, so this never has to travel"""
    def __init__(self):
        import threading
        self.lock = threading.Lock()
    def __str__(self):
        return 'odd'


def late_target(how):
    lg = logging.getLogger('child')
    lg.warning('1 %s', OddArg())
    lg.warning('2 plain')
    if how == 'noisy-result':
        return Noisy()
    if how == 'hook-raise':
        raise KeyError('k')
    if how == 'hook-exit':
        sys.exit(5)


class H(logging.Handler):
    def __init__(self):
        super().__init__()
        self.got = []
        self.audit = 0

    def emit(self, record):
        i = int(record.getMessage().split()[0])
        if i == -2:
            self.audit += 1
        else:
            self.got.append(i)


if __name__ == '__main__':
    n, size = int(sys.argv[1]), int(sys.argv[2])
    for how in ('return', 'raise', 'exit'):
        h = H()
        root = logging.getLogger()
        root.addHandler(h)
        root.setLevel(logging.INFO if how != 'raise' else logging.WARNING)
        logging.getLogger('app.audit').setLevel(logging.DEBUG)      # only the parent's level settings decide: this record must be handled
        p = Process(target=target, args=(n, size, how))
        p.start()
        try:
            r = p.result(timeout=40)
            assert how == 'return' and r == n, (how, r)
        except ValueError:
            assert how == 'raise'
        except SystemExit:
            assert how == 'exit'
        root.removeHandler(h)
        assert p.exitcode is not None, 'child never exited'
        assert h.got == list(range(n)), (how, len(h.got), n, h.got[-5:])
        assert h.audit == 1, f'record of a logger the parent configured at DEBUG was handled {h.audit} times ({how}): filtered in the child?'
    if n == 0:
        # records emitted AFTER the target has ended (while the result is pickled; by the failure hook) and records with arguments that cannot travel
        for how, cls, want in (('noisy-result', Process, [1, 2, 1000]), ('hook-raise', HookProcess, [1, 2, 2000]), ('hook-exit', HookProcess, [1, 2, 2000])):
            h = H()
            root = logging.getLogger()
            root.addHandler(h)
            root.setLevel(logging.INFO)
            p = cls(target=late_target, args=(how,))
            p.start()
            try:
                p.join(30)
            except BaseException:      # noqa: BLE001
                pass
            root.removeHandler(h)
            assert p.exitcode is not None, f'{how}: child never exited'
            assert h.got == want, f'{how}: handled {h.got}, expected {want} (a record emitted after the target ended, or one with an unpicklable argument, was lost)'
    print('OK')
