import logging, sys, faulthandler
from mpservice.multiprocessing import Process
faulthandler.dump_traceback_later(20, exit=True)
def target(n, size):
    lg = logging.getLogger('child')
    for i in range(n):
        lg.warning('%d %s', i, 'x'*size)
    return n
class H(logging.Handler):
    def __init__(self):
        super().__init__(); self.got=[]
    def emit(self, record):
        self.got.append(int(record.getMessage().split()[0]))
if __name__ == '__main__':
    n, size = int(sys.argv[1]), int(sys.argv[2])
    h = H()
    logging.getLogger().addHandler(h)
    logging.getLogger().setLevel(logging.DEBUG)
    p = Process(target=target, args=(n, size))
    p.start()
    try:
        r = p.result(timeout=10)
        print('result', r)
    except BaseException as e:
        print('result raised', repr(e))
    print('handled', len(h.got), 'of', n, 'in order', h.got == sorted(h.got), 'exitcode', p.exitcode)
    if p.exitcode is None:
        p.kill()
