"""C06 replay: 16 callers race for the slots of a server with capacity 3 while a sampler records the backlog; rejected
requests must leave no trace; an idle server has backlog 0."""
import threading, time, sys, faulthandler
from mpservice.mpserver import Server, ThreadServlet, Worker, ServerBacklogFull
faulthandler.dump_traceback_later(100, exit=True)


class W(Worker):
    def call(self, x):
        time.sleep(0.01)
        return x


def main():
    cap = 3
    server = Server(ThreadServlet(W, num_threads=1), capacity=cap)
    maxbl = [0]
    stop = [False]

    def sampler():
        while not stop[0]:
            maxbl[0] = max(maxbl[0], server.backlog)
    rejected = [0]
    with server:
        ts = threading.Thread(target=sampler)
        ts.start()

        def caller(i):
            for k in range(12):
                try:
                    assert server.call((i, k), timeout=30, backpressure=(i % 4 == 0)) == (i, k)
                except ServerBacklogFull:
                    rejected[0] += 1
        th = [threading.Thread(target=caller, args=(i,)) for i in range(16)]
        for t in th:
            t.start()
        for t in th:
            t.join()
        # timed-out / abandoned requests give their slots back too
        for k in range(5):
            try:
                server.call(k, timeout=0.001)
            except Exception:
                pass
        time.sleep(0.5)
        stop[0] = True
        ts.join()
        print('capacity', cap, 'max backlog observed', maxbl[0], 'rejected', rejected[0], 'final backlog', server.backlog)
        assert maxbl[0] <= cap, 'backlog exceeded capacity'
        assert server.backlog == 0, 'slots leaked'
        t0 = time.perf_counter()
        # back-pressure: a request arriving at a full server is rejected at once
        futs = [server._enqueue(i, 30, True) for i in range(cap)]
        try:
            server._enqueue('x', 30, True)
            raise SystemExit('no rejection')
        except ServerBacklogFull:
            pass
        for f in futs:
            f.result(10)


main()
print('OK')
