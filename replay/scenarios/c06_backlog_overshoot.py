import threading, time
from mpservice.mpserver import Server, ThreadServlet, Worker

class W(Worker):
    def call(self, x):
        time.sleep(0.02)
        return x

def main():
    server = Server(ThreadServlet(W, num_threads=1), capacity=3)
    maxbl = [0]
    stop = False
    def sampler():
        while not stop:
            maxbl[0] = max(maxbl[0], server.backlog)
    with server:
        ts = threading.Thread(target=sampler); ts.start()
        def caller(i):
            for k in range(10):
                try:
                    server.call((i,k), timeout=30, backpressure=False)
                except Exception as e:
                    print('err', repr(e))
        th = [threading.Thread(target=caller, args=(i,)) for i in range(16)]
        for t in th: t.start()
        for t in th: t.join()
        stop = True
        ts.join()
        print('capacity 3 max backlog observed', maxbl[0], 'final backlog', server.backlog)
main()
