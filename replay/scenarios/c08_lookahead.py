"""C08 runtime battery: instrumented source vs consumer counters and an enter/exit counter in the worker function."""
import sys, threading, time, faulthandler
from mpservice.streamer import Stream, fifo_stream
faulthandler.dump_traceback_later(100, exit=True)
fails = []


class Src:
    def __init__(self, n):
        self.n, self.pulled = n, 0

    def __iter__(self):
        for i in range(self.n):
            self.pulled += 1
            yield i


def run(stream_of, bound, n=3000, slow_consumer=True, label=''):
    s = Src(n)
    got = 0
    worst = 0
    for _ in stream_of(s):
        got += 1
        if slow_consumer and got % 50 == 0:
            time.sleep(0.02)           # consumer slower than the source: the producer runs ahead as far as it is allowed to
        worst = max(worst, s.pulled - got)
        if got >= 1500:
            break
    if worst > bound:
        fails.append(f'{label}: pulled - handed_out reached {worst} > {bound}')


for nbuf in (1, 2, 3, 10):
    run(lambda s: Stream(s).buffer(nbuf), nbuf + 2, label=f'buffer({nbuf})')
running = [0]
peak = [0]
lock = threading.Lock()


def work(x):
    with lock:
        running[0] += 1
        peak[0] = max(peak[0], running[0])
    time.sleep(0.0005)
    with lock:
        running[0] -= 1
    return x


for conc in (1, 2, 4):
    peak[0] = 0
    run(lambda s: Stream(s).parmap(work, executor='thread', concurrency=conc), 2 * conc + 3, n=2000, label=f'parmap(concurrency={conc})')
    if peak[0] > conc:
        fails.append(f'parmap(concurrency={conc}): {peak[0]} concurrent calls')
    # leave early, iterate again at once: calls of the first iteration must not run next to the new ones
    peak[0] = 0
    st = Stream(Src(500)).parmap(work, executor='thread', concurrency=conc)
    it = iter(st)
    next(it); it.close()
    list(Stream(Src(200)).parmap(work, executor='thread', concurrency=conc))
    if peak[0] > conc:
        fails.append(f'parmap(concurrency={conc}) after an early exit: {peak[0]} concurrent calls')
import concurrent.futures
pool = concurrent.futures.ThreadPoolExecutor(8)
for cap in (1, 2, 5):
    run(lambda s: fifo_stream(s, lambda x: pool.submit(work, x), capacity=cap), cap + 3, n=2000, label=f'fifo_stream(capacity={cap})')
if fails:
    print('\n'.join(fails)); sys.exit(1)
print('OK')
