import threading, time, concurrent.futures, faulthandler
from mpservice.mpserver import Server, ThreadServlet, Worker
faulthandler.dump_traceback_later(20, exit=True)
class W(Worker):
    def call(self, x):
        return x
victim = {}
F = concurrent.futures.Future
for name in ('cancelled', 'set_running_or_notify_cancel'):
    orig = getattr(F, name)
    def wrap(self, _orig=orig, _name=name):
        r = _orig(self)
        if victim.get('id') == id(self) and threading.current_thread().name.endswith('_gather_output'):
            self.cancel(); victim['hit'] = _name
        return r
    setattr(F, name, wrap)
def main():
    server = Server(ThreadServlet(W), capacity=8)
    with server:
        print(server.call(1))
        fut = server._enqueue(2, 60, True)
        victim['id'] = id(fut)
        time.sleep(0.5)
        print('hit', victim.get('hit'), 'gather alive', server._gather_thread.is_alive())
        assert server._gather_thread.is_alive()
        print(server.call(3, timeout=3))
    print('exited')
main()
