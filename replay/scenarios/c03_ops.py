"""C03 runtime battery: every operator (and chains) against its sequential meaning on structured inputs,
with an instrumented source that counts pulls (laziness) and detects consumption at build time.
Exit 0 = all agree.  Used as replay / fallback when a unit is undecided; never counted as proof."""
import itertools
import random
import sys
import faulthandler

from mpservice.streamer import Stream

faulthandler.dump_traceback_later(120, exit=True)
rnd = random.Random(int(sys.argv[1]) if len(sys.argv) > 1 else 0)


class Src:
    def __init__(self, xs):
        self.xs = list(xs)
        self.pulled = 0

    def __iter__(self):
        for x in self.xs:
            self.pulled += 1
            yield x


E1, E2 = ValueError('e1'), KeyError('e2')
INPUTS = [
    [], [1], [None], [1, None, 2], [None, None], [0, False, '', [], ()], list(range(7)), list(range(20)),
    [[1, 2], [], [3]], [[], []], [E1, 1, E2], ['a', 'ab', 'b', 'ba', 'c'], [1, 1, 2, 2, 2, 1], [(1, 2), (3,)],
    [rnd.randrange(5) for _ in range(31)],
]
PEEK_EXC_DONE = []
fails = []


def check(name, got, want):
    if got != want:
        fails.append(f'{name}: got {got!r} want {want!r}')


def ref_batch(xs, n):
    return [xs[i:i + n] for i in range(0, len(xs), n)]


def ref_acc(xs, f, init=None, has_init=False):
    out = []
    acc = init
    first = not has_init
    for x in xs:
        if first:
            acc = x
            first = False
        else:
            acc = f(acc, x)
        out.append(acc)
    return out


for xs in INPUTS:
    nn = [1, 2, 3, len(xs), len(xs) + 1] if xs else [1, 2]
    s = Src(xs)
    st = Stream(s).map(lambda x: (x, 1))
    check('build consumes nothing', s.pulled, 0)
    check(f'map {xs}', list(st), [(x, 1) for x in xs])
    check(f'map kwargs {xs}', Stream(Src(xs)).map(lambda x, k: (x, k), k=5).collect(), [(x, 5) for x in xs])
    check(f'filter {xs}', list(Stream(Src(xs)).filter(lambda x: bool(x))), [x for x in xs if x])
    check(f'collect {xs}', Stream(Src(xs)).collect(), xs)
    check(f'drain {xs}', Stream(Src(xs)).drain(), len(xs))
    for n in nn:
        if n <= 0:
            continue
        s = Src(xs)
        check(f'head({n}) {xs}', list(Stream(s).head(n)), xs[:n])
        if s.pulled > n + 1:
            fails.append(f'head({n}) pulled {s.pulled} of {xs}')
        check(f'tail({n}) {xs}', list(Stream(Src(xs)).tail(n)), xs[-n:])
        check(f'batch({n}) {xs}', list(Stream(Src(xs)).batch(n)), ref_batch(xs, n))
        check(f'batch.unbatch({n}) {xs}', list(Stream(Src(xs)).batch(n).unbatch()), xs)
        check(f'buffer({n}) {xs}', list(Stream(Src(xs)).buffer(n)), xs)
        check(f'head.tail.batch({n}) {xs}', list(Stream(Src(xs)).head(n + 2).tail(n).batch(2)), ref_batch(xs[:n + 2][-n:], 2))
        sh = list(Stream(Src(xs)).shuffle(n))
        if sorted(map(repr, sh)) != sorted(map(repr, xs)):
            fails.append(f'shuffle({n}) {xs} -> {sh}')
        # laziness of a chain of one-to-one operators: first k outputs pull a bounded number of source elements
        s = Src(xs)
        it = iter(Stream(s).map(lambda x: x).peek(print_func=lambda m: None).accumulate(lambda a, b: b))
        got = list(itertools.islice(it, n))
        check(f'lazy chain values {xs}', got, xs[:n])
        if s.pulled > min(len(xs), n) + 1:
            fails.append(f'laziness: {n} outputs pulled {s.pulled} of {xs}')
    if all(isinstance(x, (list, tuple)) for x in xs):
        check(f'unbatch {xs}', list(Stream(Src(xs)).unbatch()), [y for x in xs for y in x])
    check(f'peek {xs}', list(Stream(Src(xs)).peek(print_func=lambda m: None, interval=2)), xs)
    check(f'peek float {xs}', list(Stream(Src(xs)).peek(print_func=lambda m: None, interval=0.5)), xs)
    check(f'peek none {xs}', list(Stream(Src(xs)).peek(print_func=lambda m: None, interval=None, exc_types=None)), xs)
    key = (lambda x: repr(x)[:1])
    if not PEEK_EXC_DONE:
        # peek over exception ELEMENTS of every provenance: plain, remote (came out of a RemoteException), and application errors raised `from` a
        # remote one (indirectly remote): peek is read-only and one-to-one whatever it prints about them
        PEEK_EXC_DONE.append(1)
        import pickle
        from mpservice.multiprocessing.remote_exception import RemoteException

        def remote(x):
            try:
                raise ValueError(x)
            except ValueError as e:
                return pickle.loads(pickle.dumps(RemoteException(e)))

        def wrapped(x):
            try:
                try:
                    raise remote(x)
                except ValueError as e:
                    raise RuntimeError(f'wrapped {x}') from e
            except RuntimeError as e:
                return e

        def chained(x):
            try:
                try:
                    raise KeyError(x)
                except KeyError:
                    raise LookupError(x)        # implicit context, no cause
            except LookupError as e:
                return e
        elems = [0, ValueError(1), remote(2), wrapped(3), chained(4), 5, wrapped(6), remote(7)]
        for kw in ({}, {'interval': 1}, {'exc_types': None}, {'exc_types': (RuntimeError,)}):
            try:
                out = list(Stream(Src(elems)).peek(print_func=lambda m: None, **kw))
            except BaseException as e:      # noqa: BLE001
                fails.append(f'peek{kw} over exception elements raised {type(e).__name__}: {e}')
                continue
            if len(out) != len(elems) or any(a is not b for a, b in zip(out, elems)):
                fails.append(f'peek{kw} over exception elements changed the stream: {out}')
    check(f'groupby {xs}', [(k, list(g)) for k, g in Stream(Src(xs)).groupby(key)], [(k, list(g)) for k, g in itertools.groupby(xs, key)])
    f = lambda a, b: (a, b)
    check(f'accumulate {xs}', list(Stream(Src(xs)).accumulate(f)), ref_acc(xs, f))
    check(f'accumulate init {xs}', list(Stream(Src(xs)).accumulate(f, None)), ref_acc(xs, f, None, True))
    check(f'accumulate kwargs {xs}', list(Stream(Src(xs)).accumulate(lambda a, b, k: (a, b, k), 0, k=3)), ref_acc(xs, lambda a, b: (a, b, 3), 0, True))
    check(f'filter_exceptions keep {xs}', list(Stream(Src(xs)).filter_exceptions(keep_exc_types=Exception)), xs)
    check(f'filter_exceptions drop {xs}', list(Stream(Src(xs)).filter_exceptions(drop_exc_types=Exception)), [x for x in xs if not isinstance(x, Exception)])
    check(f'filter_exceptions keep/drop {xs}', list(Stream(Src(xs)).filter_exceptions(drop_exc_types=(ValueError, KeyError), keep_exc_types=KeyError)),
          [x for x in xs if not isinstance(x, ValueError)])
    if any(isinstance(x, Exception) for x in xs):
        try:
            list(Stream(Src(xs)).filter_exceptions(drop_exc_types=KeyError))
            fails.append('filter_exceptions did not raise the unlisted exception')
        except ValueError as e:
            check('raised object', e, E1)
    check(f'parmap {xs}', list(Stream(Src(xs)).parmap(lambda x: [x], executor='thread', concurrency=3)), [[x] for x in xs])

# a user function that fails on element k: the pipeline yields the first k outputs and then FAILS -- it never ends quietly with a truncated
# result, whatever the exception class (StopIteration included: inside a generator it becomes RuntimeError, PEP 479)
def failing_at(k, exc):
    def f(x, *a):
        if x == k:
            raise exc
        return x
    return f


for exc in (ValueError('boom'), KeyError('k'), StopIteration()):
    want_cls = RuntimeError if isinstance(exc, StopIteration) else type(exc)
    for name, mk in (('map', lambda f: Stream(Src(range(6))).map(f)), ('filter', lambda f: Stream(Src(range(1, 7))).filter(f)),
                     ('map.batch', lambda f: Stream(Src(range(6))).map(f).batch(2)), ('accumulate', lambda f: Stream(Src(range(6))).accumulate(lambda a, b: f(b))),
                     ('map.buffer', lambda f: Stream(Src(range(6))).map(f).buffer(3)), ('peek', lambda f: Stream(Src(range(6))).map(f).peek(print_func=lambda m: None))):
        got = []
        try:
            for y in mk(failing_at(3, exc)):
                got.append(y)
            fails.append(f'{name}: user function raised {type(exc).__name__} on element 3 but the stream ended normally with {got!r} (silently truncated)')
        except BaseException as e:      # noqa: BLE001
            if not isinstance(e, want_cls):
                fails.append(f'{name}: user function raised {type(exc).__name__}, stream raised {type(e).__name__}')

# incremental consumption of parmap: taking k outputs pulls at most k + look-ahead (capacity + a few) source elements, for every concurrency
for conc in (1, 2, 4):
    src = Src(range(2000))
    it = iter(Stream(src).parmap(lambda x: x, executor='thread', concurrency=conc))
    first = [next(it) for _ in range(3)]
    time_to_settle = 0.3
    import time as _t
    _t.sleep(time_to_settle)
    if first != [0, 1, 2] or src.pulled > 3 + 2 * conc + 4:
        fails.append(f'parmap(concurrency={conc}): 3 outputs pulled {src.pulled} source elements (look-ahead bound is 2 x concurrency + a few)')
    it.close() if hasattr(it, 'close') else None

# slow source in front of buffer: nothing may be lost when the source stalls
import time


def slow(xs, gap):
    for x in xs:
        time.sleep(gap)
        yield x


check('buffer with a stalling source', list(Stream(slow(range(4), 0.4)).buffer(2)), [0, 1, 2, 3])

if fails:
    print('\n'.join(fails[:20]))
    print(f'{len(fails)} disagreements')
    sys.exit(1)
print('OK')
