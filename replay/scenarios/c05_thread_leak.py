"""C05 bounded stand-in for the one clause no contract decides: in a CHAIN of operators, ending the last stage ends the upstream stages too.
Each stage's own finalizer is proved to stop and join its helper thread once ITS generator is closed; that an upstream generator IS closed when the
downstream stage ends relies on CPython releasing it (reference counting: locals of a finished function, frames kept alive by tracebacks ...).
Matrix: pipelines (buffer / parmap thread+process-free / buffer->parmap / parmap->buffer / async bridge) x how the iteration ends (exhausted, early
close, downstream consumer failure, user-function failure, preprocessor failure with and without return_exceptions) x whether the consumer KEEPS the
results / the exception object afterwards.  After each, every helper thread started by the pipeline must be gone within a few seconds."""
import faulthandler, gc, itertools, sys, threading, time
from mpservice.streamer import Stream

faulthandler.dump_traceback_later(150, exit=True)
fails = []


def ident(x):
    return x


def validator(bad):
    def validate(x):
        if x == bad:
            raise ValueError(x)
        return x
    return validate


def failing(bad):
    def f(x):
        if x == bad:
            raise KeyError(x)
        return x
    return f


def helpers(before):
    return [t for t in threading.enumerate() if t not in before and t.is_alive()]


def settle(before, seconds=4.0):
    deadline = time.perf_counter() + seconds
    while time.perf_counter() < deadline:
        if not helpers(before):
            break
        time.sleep(0.05)
    return helpers(before)


PIPELINES = {
    'buffer': lambda src, **k: Stream(src).buffer(3),
    'parmap': lambda src, **k: Stream(src).parmap(k.get('func', ident), executor='thread', concurrency=2, preprocessor=k.get('pre'), return_exceptions=k.get('rexc', False)),
    'parmap(1)': lambda src, **k: Stream(src).parmap(k.get('func', ident), executor='thread', concurrency=1, preprocessor=k.get('pre'), return_exceptions=k.get('rexc', False)),
    'buffer.parmap': lambda src, **k: Stream(src).buffer(3).parmap(k.get('func', ident), executor='thread', concurrency=2, preprocessor=k.get('pre'), return_exceptions=k.get('rexc', False)),
    'parmap.buffer': lambda src, **k: Stream(src).parmap(k.get('func', ident), executor='thread', concurrency=2, preprocessor=k.get('pre'), return_exceptions=k.get('rexc', False)).buffer(2),
    'buffer.map.buffer': lambda src, **k: Stream(src).buffer(2).map(k.get('func', ident)).buffer(2),
    'buffer.parmap.batch.buffer': lambda src, **k: Stream(src).buffer(3).parmap(k.get('func', ident), executor='thread', concurrency=2, preprocessor=k.get('pre'), return_exceptions=k.get('rexc', False)).batch(2).buffer(1),
}


def run(name, mk, mode, keep):
    before = set(threading.enumerate())
    kept = []
    try:
        if mode == 'exhaust':
            kept.append(list(mk(range(7))))
        elif mode == 'early close':
            it = iter(mk(itertools.count()))
            kept.append([next(it) for _ in range(4)])
            it.close()
            del it
        elif mode == 'consumer fails':
            try:
                for y in mk(itertools.count()):
                    kept.append(y)
                    if len(kept) == 3:
                        raise RuntimeError('consumer')
            except RuntimeError as e:
                kept.append(e)
        elif mode == 'function fails':
            if name == 'buffer':
                return          # no user function in this pipeline
            try:
                for y in mk(itertools.count(), func=failing(3)):
                    kept.append(y)
            except KeyError as e:
                kept.append(e)
        elif mode == 'preprocessor fails':
            if 'parmap' not in name:
                return
            try:
                for y in mk(itertools.count(), pre=validator(3)):
                    kept.append(y)
            except ValueError as e:
                kept.append(e)
        elif mode == 'preprocessor fails, exceptions returned, early close':
            if 'parmap' not in name:
                return
            it = iter(mk(itertools.count(), pre=validator(1), rexc=True))
            kept.append([next(it) for _ in range(5)])
            it.close()
            del it
    except BaseException as e:      # noqa: BLE001
        fails.append(f'{name} / {mode}: unexpected {type(e).__name__}: {e}')
        kept.append(e)
    if not keep:
        kept.clear()
        gc.collect()
    left = settle(before)
    if left:
        fails.append(f'{name} / {mode} / consumer {"keeps" if keep else "drops"} the results: helper threads still alive after the iteration ended: {[t.name for t in left]}')
    kept.clear()
    gc.collect()
    settle(before, 2.0)


# ---- the async -> sync bridge: a sync consumer of an async pipeline (SyncIter) stops early; the upstream ASYNC stages' helper threads must end too
async def asource(closed):
    try:
        k = 0
        while True:
            yield k
            k += 1
    finally:
        closed.set()


def run_bridge(label, mk, n_take):
    from mpservice.streamer._streamer_async import SyncIter
    before = set(threading.enumerate())
    closed = threading.Event()
    it = iter(SyncIter(mk(asource(closed))))
    got = [next(it) for _ in range(n_take)]
    it.close()
    del it
    gc.collect()
    left = settle(before)
    if left:
        fails.append(f'async bridge {label} / early close after {n_take}: helper threads still alive after the iterator was closed: {[t.name for t in left]}')
    elif not closed.is_set():
        fails.append(f'async bridge {label} / early close after {n_take}: the async source was never finalized')
    if got != list(range(n_take)):
        fails.append(f'async bridge {label}: wrong elements {got}')


def bridges():
    from mpservice.streamer._streamer_async import AsyncStream

    async def aident(x):
        return x
    return {
        'source': lambda src: AsyncStream(src),
        'buffer(1)': lambda src: AsyncStream(src).buffer(1),
        'buffer(4)': lambda src: AsyncStream(src).buffer(4),
        'parmap(sync func)': lambda src: AsyncStream(src).parmap(ident, concurrency=2, executor='thread'),
        'parmap(async func)': lambda src: AsyncStream(src).parmap(aident, concurrency=2),
        'buffer.parmap.buffer': lambda src: AsyncStream(src).buffer(2).parmap(ident, concurrency=2, executor='thread').buffer(2),
    }


if __name__ == '__main__':
    for label, mk in bridges().items():
        for n_take in (1, 4):
            try:
                run_bridge(label, mk, n_take)
            except BaseException as e:      # noqa: BLE001
                fails.append(f'async bridge {label} / {n_take}: unexpected {type(e).__name__}: {e}')
    for name, mk in PIPELINES.items():
        for mode in ('exhaust', 'early close', 'consumer fails', 'function fails', 'preprocessor fails', 'preprocessor fails, exceptions returned, early close'):
            for keep in (True, False):
                run(name, mk, mode, keep)
    if fails:
        print('\n'.join(fails[:20]))
        sys.stdout.flush()
        import os
        os._exit(1)
    print('OK')
