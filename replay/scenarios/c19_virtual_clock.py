"""C19 runtime battery: EagerBatcher against a scripted queue on a virtual clock (time.perf_counter patched in the module),
for random arrival schedules, batch sizes, wait times and end markers (incl. an equal-but-not-identical custom marker)."""
import queue, random, sys, faulthandler
import mpservice.streamer._streamer as S
from mpservice.streamer._streamer import EagerBatcher
faulthandler.dump_traceback_later(60, exit=True)
rnd = random.Random(int(sys.argv[1]) if len(sys.argv) > 1 else 0)


class Clock:
    now = 0.0


S.time = type('T', (), {'perf_counter': staticmethod(lambda: Clock.now), 'sleep': staticmethod(lambda t: setattr(Clock, 'now', Clock.now + t))})


class ScriptQueue:
    """items arrive at given virtual times; get() blocks (advances the clock) until the next arrival; get(timeout=t) waits at most t"""

    def __init__(self, arrivals):
        self.arrivals = list(arrivals)      # (time, item), sorted

    def get(self, block=True, timeout=None):
        if not self.arrivals:
            raise AssertionError('get() after the end marker was delivered (would block forever)')
        t, item = self.arrivals[0]
        if timeout is None:
            Clock.now = max(Clock.now, t)
            self.arrivals.pop(0)
            return item
        assert timeout >= 0
        if t <= Clock.now + timeout:
            Clock.now = max(Clock.now, t)
            self.arrivals.pop(0)
            return item
        Clock.now += timeout
        raise queue.Empty


def reference(arrivals, bs, wait, end):
    """batches with the virtual time of release"""
    out = []
    i = 0
    n = len(arrivals)
    now = 0.0
    while True:
        t, x = arrivals[i]; i += 1
        now = max(now, t)
        if x == end:
            return out
        batch = [x]
        deadline = now + wait
        while len(batch) < bs:
            t, x = arrivals[i]
            if t <= max(now, deadline):
                now = max(now, t); i += 1
                if x == end:
                    out.append((now, batch))
                    return out
                batch.append(x)
            else:
                now = max(now, deadline)
                break
        out.append((now, batch))


fails = 0
for trial in range(400):
    bs = rnd.choice([1, 2, 3, 5])
    wait = rnd.choice([0, 0.5, 1.0, 2.0])
    end_kind = rnd.choice(['none', 'str', 'tuple'])
    end = {'none': None, 'str': 'END', 'tuple': ('end', 1)}[end_kind]
    n = rnd.randrange(0, 12)
    t = 0.0
    arrivals = []
    for k in range(n):
        t += rnd.choice([0, 0, 0.1, 0.4, 0.9, 1.5, 3.0])
        arrivals.append((t, k))
    t += rnd.choice([0, 0.3, 2.5])
    # the marker arrives as an equal but distinct object (as it would through a process queue)
    arrivals.append((t, None if end is None else (''.join(['E', 'ND']) if end_kind == 'str' else tuple(['end', 1]))))
    Clock.now = 0.0
    want = reference(arrivals, bs, wait, end)
    Clock.now = 0.0
    got = []
    try:
        for b in EagerBatcher(ScriptQueue(arrivals), batch_size=bs, batch_wait_time=wait, endmarker=end):
            got.append((Clock.now, list(b)))
    except AssertionError as e:
        got.append(('ERR', str(e)))
    if got != want:
        fails += 1
        if fails <= 5:
            print(f'bs={bs} wait={wait} end={end!r} arrivals={arrivals}\n   got  {got}\n   want {want}')
# ---- elements whose == / truthiness is unusual (with the DEFAULT end marker None only identity can tell the marker from an element)
class Anything:
    """compares equal to everything (like unittest.mock.ANY)"""
    def __eq__(self, other):
        return True
    def __ne__(self, other):
        return False
    __hash__ = None


class Vec:
    """array-like: == gives an element-wise result whose truth value is ambiguous"""
    def __init__(self, *xs):
        self.xs = xs
    def __eq__(self, other):
        return Vec(*[x == other for x in self.xs])
    def __bool__(self):
        raise ValueError('the truth value of a Vec is ambiguous')
    __hash__ = None


odd = [0, '', [], False, 0.0, Anything(), Vec(1, 2), (), Anything(), Vec()]
for bs, wait in ((1, 0), (3, 0), (3, 1.0), (4, 0.5)):
    arrivals = [(0.2 * k, x) for k, x in enumerate(odd)] + [(0.2 * len(odd) + 0.1, None)]
    Clock.now = 0.0
    try:
        got = [x for b in EagerBatcher(ScriptQueue(arrivals), batch_size=bs, batch_wait_time=wait) for x in b]
    except BaseException as e:      # noqa: BLE001
        got = ('ERR', type(e).__name__, str(e))
    if not (isinstance(got, list) and len(got) == len(odd) and all(a is b for a, b in zip(got, odd))):
        fails += 1
        print(f'odd elements, bs={bs} wait={wait}: the batches do not partition the input: {got!r}')

# ---- a ResponsiveQueue as the instream (its get polls a stop event in slices): get(timeout=0) must poll once and give up, not wait for the next arrival
import mpservice.queue as Q


class SlicedScriptQueue(ScriptQueue):
    def get(self, block=True, timeout=None):
        return super().get(block, timeout)


Q.perf_counter = lambda: Clock.now
for bs, wait in ((3, 0), (3, 1.0), (2, 0.5)):
    arrivals = [(0.0, 'a'), (3.0, 'b'), (3.1, 'c'), (9.0, None)]
    Clock.now = 0.0
    want = reference(arrivals, bs, wait, None)
    Clock.now = 0.0
    import threading as _th
    rq = Q.ResponsiveQueue(SlicedScriptQueue(arrivals), _th.Event(), wait_interval_seconds=0.25)
    got = []
    try:
        for b in EagerBatcher(rq, batch_size=bs, batch_wait_time=wait):
            got.append((Clock.now, list(b)))
    except BaseException as e:      # noqa: BLE001
        got.append(('ERR', type(e).__name__, str(e)))
    if got != want:
        fails += 1
        print(f'ResponsiveQueue instream, bs={bs} wait={wait}:\n   got  {got}\n   want {want}')

if EagerBatcher(ScriptQueue([(0, None)]), batch_size=3)._batch_wait_time != 60 or EagerBatcher(ScriptQueue([(0, None)]), batch_size=1)._batch_wait_time != 0 \
        or EagerBatcher(ScriptQueue([(0, None)]), batch_size=3, batch_wait_time=0)._batch_wait_time != 0:
    print('default wait time wrong'); fails += 1
if fails:
    print(fails, 'disagreements'); sys.exit(1)
print('OK')
