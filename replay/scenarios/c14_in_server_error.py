"""C14: a proxy used INSIDE the server process (a hosted object holding a managed value and calling it) whose target method raises:
the caller -- here the hosting method, and through it the remote client -- must see the method's own exception (type, args), not a TypeError."""
import sys, faulthandler
faulthandler.dump_traceback_later(60, exit=True)
from mpservice.multiprocessing.server_process import ServerProcess, managed_list


class Holder:
    def __init__(self):
        self.items = None

    def setup(self):
        # (not in __init__: Server.create holds the server mutex while the registered callable runs)
        self.items = managed_list([1, 2, 3])      # inside the server: a proxy whose calls take the in-server short-cut
        return len(self.items)

    def take(self, i):
        return self.items.pop(i)                  # IndexError for a bad index

    def probe(self, i):
        try:
            self.items.pop(i)
        except IndexError as e:
            return ('IndexError', e.args)
        except BaseException as e:                # noqa: BLE001
            return (type(e).__name__, e.args)
        return ('no error', ())


ServerProcess.register('C14Holder', Holder)

if __name__ == '__main__':
    fails = []
    with ServerProcess() as m:
        h = m.C14Holder()
        if h.setup() != 3:
            fails.append('len through an in-server proxy')
        if h.take(0) != 1:
            fails.append('in-server proxy call returned a wrong value')
        r = h.probe(10)
        if r[0] != 'IndexError':
            fails.append(f'inside the server, a failing call through a proxy surfaced as {r} instead of the method\'s IndexError')
        try:
            h.take(10)
            fails.append('no exception')
        except IndexError:
            pass
        except BaseException as e:      # noqa: BLE001
            fails.append(f'the client saw {type(e).__name__}: {e} instead of IndexError')
        if h.take(0) != 2:
            fails.append('connection / object unusable after the error')
    if fails:
        print('\n'.join(fails))
        sys.exit(1)
    print('OK')
