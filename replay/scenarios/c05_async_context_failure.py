"""C05: Stream.parmap(async_func, async_context={...}) when a user-supplied async context manager FAILS TO ENTER (cannot connect ...): the consumer gets that error in
bounded time -- it does not wait forever for coroutines submitted to the dead helper loop -- and no helper thread is left.  Controls: working contexts, a context that
fails on exit, a failing worker function."""
import faulthandler, sys, threading, time
from mpservice.streamer import Stream

faulthandler.dump_traceback_later(40, exit=True)
fails = []


class CM:
    def __init__(self, enter_fails=False, exit_fails=False):
        self.enter_fails, self.exit_fails, self.entered, self.left = enter_fails, exit_fails, False, False

    async def __aenter__(self):
        if self.enter_fails:
            raise ConnectionError('cannot connect')
        self.entered = True
        return self

    async def __aexit__(self, *a):
        self.left = True
        if self.exit_fails:
            raise OSError('close failed')
        return False


async def double(x, session=None, other=None):
    if x == 'boom':
        raise KeyError(x)
    return x * 2


def run(label, ctx, xs, expect):
    before = set(threading.enumerate())
    t0 = time.perf_counter()
    try:
        got = ('ok', list(Stream(xs).parmap(double, async_context=ctx)))
    except BaseException as e:      # noqa: BLE001
        got = ('exc', type(e).__name__)
    if got != expect:
        fails.append(f'{label}: {got}, expected {expect}')
    deadline = time.perf_counter() + 4
    while time.perf_counter() < deadline and [t for t in threading.enumerate() if t not in before and t.is_alive()]:
        time.sleep(0.05)
    left = [t.name for t in threading.enumerate() if t not in before and t.is_alive()]
    if left:
        fails.append(f'{label}: helper threads left: {left}')


if __name__ == '__main__':
    ok = CM()
    run('working context', {'session': ok}, [1, 2, 3], ('ok', [2, 4, 6]))
    if not (ok.entered and ok.left):
        fails.append('working context: not entered / not left')
    run('no context', None, [1, 2], ('ok', [2, 4]))
    first = CM()
    run('second context fails to enter', {'session': first, 'other': CM(enter_fails=True)}, [1, 2, 3], ('exc', 'ConnectionError'))
    if first.entered and not first.left:
        fails.append('second context fails to enter: the first one, already entered, was not left')
    run('only context fails to enter', {'session': CM(enter_fails=True)}, range(100), ('exc', 'ConnectionError'))
    run('failing worker function', {'session': CM()}, [1, 'boom', 3], ('exc', 'KeyError'))
    if fails:
        print('\n'.join(fails))
        sys.stdout.flush()
        import os
        os._exit(1)
    print('OK')
