"""C18 runtime battery (regression + the parts no contract decides: the OS byte stream, asyncio's scheduling of the
sender/receiver tasks, multiprocessing.Connection over FIFOs).  Socket: payloads that look like headers / contain newlines /
are empty / are large, handlers with out-of-order latencies over few connections and many concurrent requesters, handlers
raising (TimeoutError included), response timeouts followed by fresh requests (id reuse), stream order.  Pipe: objects intact
and in order in both directions."""
import asyncio, os, sys, threading, time, random, tempfile, shutil, socket as pysocket, concurrent.futures, multiprocessing
from mpservice.socket import SocketApplication, SocketClient, make_server
from mpservice.multiprocessing import MP_SPAWN_CTX
from mpservice import pipe

fails = []
tmp = tempfile.mkdtemp(prefix='c18_')
sock = os.path.join(tmp, 's')


def run_server(path):
    async def echo(data):
        return data

    async def slow(data):
        # latency decreasing with the tag: responses complete in reverse order of requests
        tag, delay, payload = data
        await asyncio.sleep(delay)
        return ('resp', tag, payload)

    async def boom(data):
        kind, tag = data
        await asyncio.sleep(0.001 * (tag % 3))
        if kind == 'value':
            raise ValueError(tag)
        if kind == 'key':
            raise KeyError(tag)
        if kind == 'timeout':
            raise TimeoutError(tag)
        if kind == 'atimeout':
            raise asyncio.TimeoutError(tag)
        if kind == 'stimeout':
            raise pysocket.timeout(tag)
        return ('ok', tag)

    app = SocketApplication()
    app.add_route('/echo', echo)
    app.add_route('/slow', slow)
    app.add_route('/boom', boom)
    asyncio.run(make_server(app, path=path).serve())


def socket_battery():
    server = MP_SPAWN_CTX.Process(target=run_server, args=(sock,))
    server.start()
    try:
        nconn = int(sys.argv[1]) if len(sys.argv) > 1 else 2
        with SocketClient(path=sock, num_connections=nconn) as client:
            # (1) payload content and size
            rng = random.Random(18)
            payloads = [b'', '', 0, (), [], {}, b'\n', b'\n\n7 3 pickle\nabc', '12345 10 pickle\n', b'x 1 none\ny', 'a b c\n' * 1000,
                        b'\x00' * 65536, bytes(rng.getrandbits(8) for _ in range(70000)), b'\n' * 200000, 'é' * 5000,
                        {'k': [1, 2, (3, b'\n4 5 pickle\n')], 'z': {'n': None}}, list(range(50000)), b'A' * (3 << 20), [b'\n' * i for i in range(60)]]
            for p in payloads:
                y = client.request('/echo', p, response_timeout=30)
                if y != p or type(y) is not type(p):
                    fails.append(f'payload of type {type(p).__name__} len {len(p) if hasattr(p, "__len__") else "-"} came back changed')
            # (2) many concurrent requesters, out-of-order completion on 2 shared connections
            results = {}

            def requester(i):
                try:
                    results[i] = client.request('/slow', (i, 0.002 * ((37 * i) % 23), b'\n%d 1 pickle\n' % i * (i % 5)), response_timeout=30)
                except BaseException as e:
                    results[i] = e
            ths = [threading.Thread(target=requester, args=(i,)) for i in range(120)]
            for t in ths:
                t.start()
            for t in ths:
                t.join()
            for i in range(120):
                if results.get(i) != ('resp', i, b'\n%d 1 pickle\n' % i * (i % 5)):
                    fails.append(f'concurrent request {i} got {str(results.get(i))[:80]}')
            # (3) large payloads back to back with instant responses (response cannot overtake the registration of its request)
            big = [bytes([i]) * (200000 + 1000 * i) for i in range(40)]
            got = list(client.stream('/echo', big, response_timeout=60))
            if got != big:
                fails.append('stream of large payloads: changed or out of order')
            # (4) exceptions come back to their own request, TimeoutError included; connection stays usable
            kinds = ['ok', 'value', 'timeout', 'key', 'atimeout', 'ok', 'stimeout']
            outcomes = {}

            def caller(i):
                kind = kinds[i % len(kinds)]
                try:
                    outcomes[i] = ('ret', client.request('/boom', (kind, i), response_timeout=8))
                except BaseException as e:
                    outcomes[i] = ('exc', type(e).__name__, e.args)
            ths = [threading.Thread(target=caller, args=(i,)) for i in range(42)]
            for t in ths:
                t.start()
            for t in ths:
                t.join()
            want_cls = {'value': 'ValueError', 'key': 'KeyError', 'timeout': 'TimeoutError', 'atimeout': 'TimeoutError', 'stimeout': 'TimeoutError'}
            for i in range(42):
                kind = kinds[i % len(kinds)]
                want = ('ret', ('ok', i)) if kind == 'ok' else ('exc', want_cls[kind], (i,))
                if outcomes.get(i) != want:
                    fails.append(f'/boom request {i} ({kind}): expected {want}, got {outcomes.get(i)}')
            # (5) stream preserves order under reordering latencies, with and without return_x, exceptions in place
            data = [(i, 0.001 * ((11 * i) % 7), i * i) for i in range(80)]
            got = list(client.stream('/slow', data, return_x=True, response_timeout=30))
            if got != [(x, ('resp', x[0], x[2])) for x in data]:
                fails.append('stream(return_x=True): order or pairing changed')
            items = [(kinds[i % len(kinds)], i) for i in range(35)]
            got = list(client.stream('/boom', items, return_exceptions=True, response_timeout=30))
            for (kind, i), y in zip(items, got):
                ok = (y == ('ok', i)) if kind == 'ok' else (type(y).__name__ == want_cls[kind] and y.args == (i,))
                if not ok:
                    fails.append(f'stream(return_exceptions): item {i} ({kind}) got {y!r}')
            if len(got) != len(items):
                fails.append(f'stream(return_exceptions): {len(got)} results for {len(items)} inputs')
            # (6) response timeouts, then fresh requests: a late response must never be delivered to another request
            for rnd in range(3):
                def late(i):
                    try:
                        client.request('/slow', (('late', rnd, i), 0.25, None), response_timeout=0.05)
                    except concurrent.futures.TimeoutError:
                        pass
                ths = [threading.Thread(target=late, args=(i,)) for i in range(16)]
                for t in ths:
                    t.start()
                for t in ths:
                    t.join()
                del ths, t
                fresh = [(('fresh', rnd, i), 0.3, None) for i in range(64)]
                got = list(client.stream('/slow', fresh, response_timeout=30))
                for x, y in zip(fresh, got):
                    if y != ('resp', x[0], None):
                        fails.append(f'request {x[0]} was answered with {str(y)[:60]}')
                        break
            client.request('/shutdown', response_timeout=0)
    finally:
        server.join(20)
        if server.is_alive():
            server.terminate()
            fails.append('socket server did not shut down')


def _pipe_server(path, n):
    s = pipe.Server(path)
    out = []
    for i in range(n):
        s.send(('s2c', i, b'\n' * i, {'i': [i] * (i % 7)}))
        out.append(s.recv())
    s.send(b'B' * (1 << 20))
    out.append(s.recv())
    return out


def _pipe_client(path, n):
    c = pipe.Client(path)
    out = []
    for i in range(n):
        out.append(c.recv())
        c.send(('c2s', i, 'x' * i))
    out.append(c.recv())
    c.send(None)
    return out


def pipe_battery():
    path = os.path.join(tmp, 'pipes', 'p')
    n = 200
    with concurrent.futures.ProcessPoolExecutor(2, mp_context=multiprocessing.get_context('spawn')) as ex:
        a = ex.submit(_pipe_client, path, n)
        b = ex.submit(_pipe_server, path, n)
        got_c, got_s = a.result(60), b.result(60)
    if got_c != [('s2c', i, b'\n' * i, {'i': [i] * (i % 7)}) for i in range(n)] + [b'B' * (1 << 20)]:
        fails.append('pipe server->client: objects changed or out of order')
    if got_s != [('c2s', i, 'x' * i) for i in range(n)] + [None]:
        fails.append('pipe client->server: objects changed or out of order')


def _pipe_pair_end(kind, path, tag, n):
    end = (pipe.Server if kind == 'server' else pipe.Client)(path)
    # rendezvous: talk only once all four ends exist, so that the two pairs are alive at the same time
    d = os.path.dirname(path)
    open(os.path.join(d, f'ready-{tag}-{kind}'), 'w').close()
    deadline = time.time() + 20
    while len([f for f in os.listdir(d) if f.startswith('ready-')]) < 4 and time.time() < deadline:
        time.sleep(0.01)
    out = []
    for i in range(n):
        if kind == 'server':
            end.send((tag, 's2c', i))
            out.append(end.recv())
        else:
            out.append(end.recv())
            end.send((tag, 'c2s', i))
    return out


def two_pipes_one_directory():
    """two pipe pairs alive at once in ONE directory, with names that differ only after the last dot: each pair keeps to its own FIFOs"""
    n = 30
    d = os.path.join(tmp, 'pipes2')
    os.makedirs(d, exist_ok=True)
    jobs = {}
    with concurrent.futures.ProcessPoolExecutor(4, mp_context=multiprocessing.get_context('spawn')) as ex:
        for tag in ('east', 'west'):
            path = os.path.join(d, 'link.' + tag)
            jobs[tag, 'client'] = ex.submit(_pipe_pair_end, 'client', path, tag, n)
            jobs[tag, 'server'] = ex.submit(_pipe_pair_end, 'server', path, tag, n)
        for (tag, kind), f in jobs.items():
            try:
                got = f.result(40)
            except Exception as e:      # noqa: BLE001
                fails.append(f'two pipes in one directory: {kind} of link.{tag}: {type(e).__name__}: {e}')
                for g in jobs.values():
                    g.cancel()
                for pr in list(ex._processes.values()):
                    pr.terminate()
                return
            want = [(tag, 's2c' if kind == 'client' else 'c2s', i) for i in range(n)]
            if got != want:
                fails.append(f'two pipes in one directory: the {kind} of link.{tag} received {got[:3]}... instead of its own peer\'s objects')


def two_applications_one_process():
    """two SocketApplication objects in one process, both with a '/' route (as the docs suggest): each answers with ITS OWN handler"""
    async def double(x):
        return ('A', x * 2)

    async def negate(x):
        return ('B', -x)

    async def info():
        return 'A-info'
    a, b = SocketApplication(), SocketApplication()
    a.add_route('/', double)
    a.add_route('/info', info)
    b.add_route('/', negate)
    ra, rb = asyncio.run(a.handle_request('/', 5)), asyncio.run(b.handle_request('/', 5))
    if ra != ('A', 10) or rb != ('B', -5):
        fails.append(f"two applications in one process: '/' of A answered {ra!r}, '/' of B answered {rb!r}")
    try:
        r = asyncio.run(b.handle_request('/info', None))
        fails.append(f"application B answered a route only A registered: {r!r}")
    except Exception:       # noqa: BLE001
        pass


if __name__ == '__main__':
    try:
        t = threading.Thread(target=socket_battery, daemon=True)
        t.start()
        t.join(240)
        if t.is_alive():
            fails.append('socket battery did not finish within 240 s (a request never got its response)')
        else:
            pipe_battery()
            two_pipes_one_directory()
            two_applications_one_process()
    finally:
        shutil.rmtree(tmp, ignore_errors=True)
    if fails:
        print('\n'.join(fails[:30]))
        os._exit(1)
    print('OK')
    os._exit(0)
