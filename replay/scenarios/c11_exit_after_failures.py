"""C11 battery: leaving the context after FAILED requests -- in servlet trees where the error value crosses stages and process boundaries (ensemble -> process stage,
process -> process, switch) -- returns normally with nothing left behind, and the same server object can be entered and used again."""
import faulthandler, multiprocessing, sys, threading, time
from mpservice.mpserver import Server, Worker, ThreadServlet, ProcessServlet, SequentialServlet, EnsembleServlet, SwitchServlet

faulthandler.dump_traceback_later(60, exit=True)
fails = []


class Reciprocal(Worker):
    def call(self, x):
        return 1 / x


class Negate(Worker):
    def call(self, x):
        return -x


class Total(Worker):
    def call(self, x):
        return sum(x) if isinstance(x, list) else x


class Even(SwitchServlet):
    def switch(self, x):
        return 0 if x % 2 == 0 else 1


TREES = {
    'ensemble -> process': lambda: SequentialServlet(EnsembleServlet(ThreadServlet(Reciprocal), ThreadServlet(Negate)), ProcessServlet(Total)),
    'ensemble(collect) -> process -> process': lambda: SequentialServlet(EnsembleServlet(ThreadServlet(Reciprocal), ThreadServlet(Negate), fail_fast=False), ProcessServlet(Total), ProcessServlet(Total)),
    'process -> process': lambda: SequentialServlet(ProcessServlet(Reciprocal), ProcessServlet(Negate)),
    'switch(process, thread) -> thread': lambda: SequentialServlet(Even(ProcessServlet(Reciprocal), ThreadServlet(Reciprocal)), ThreadServlet(Negate)),
}


def leftovers(before):
    deadline = time.perf_counter() + 5
    while time.perf_counter() < deadline:
        th = [t.name for t in threading.enumerate() if t not in before and t.is_alive()]
        pr = [p.name for p in multiprocessing.active_children()]
        if not th and not pr:
            break
        time.sleep(0.05)
    return th, pr


def run(name, mk):
    server = Server(mk(), capacity=8)
    for rnd in (1, 2):
        before = set(threading.enumerate())
        try:
            with server:
                outs = list(server.stream([2, 0, 4, 0, 5], return_exceptions=True, timeout=8))
                bad = [i for i, y in enumerate(outs) if isinstance(y, BaseException)]
                if bad != [1, 3]:
                    fails.append(f'{name}, entry {rnd}: requests {bad} failed, expected exactly [1, 3]: {outs}')
                ok = server.call(8, timeout=8)
        except BaseException as e:      # noqa: BLE001
            fails.append(f'{name}, entry {rnd}: leaving (or using) the server raised {type(e).__name__}: {e}')
            return
        th, pr = leftovers(before)
        if th or pr:
            fails.append(f'{name}, entry {rnd}: left behind after __exit__: threads {th}, processes {pr}')
            return


if __name__ == '__main__':
    for name, mk in TREES.items():
        run(name, mk)
    if fails:
        print('\n'.join(fails[:10]))
        sys.stdout.flush()
        import os
        os._exit(1)
    print('OK')
