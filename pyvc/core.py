"""pyvc E1: forward symbolic execution of real Python function bodies into named, quantifier-free obligations.

The executor walks the `ast` of a function extracted from /repo on every run.  Loops are cut at sidecar
invariants, calls are replaced by models/contracts, every assertion on every path becomes one obligation.
Anything outside the supported subset raises `Unsupported` -> the unit is *undecided* (never proved, never violated).
"""
import ast
import itertools
import z3

from . import vals as V
from .vals import Val, SeqV, NONE, UNBOUND, PyTuple, fresh, is_z3


class Unsupported(Exception):
    pass


class PathLimit(Exception):
    pass


# ------------------------------------------------------------------ state
class St:
    __slots__ = ('env', 'heap', 'ghost', 'pc', 'trace', 'held', 'cells')

    def __init__(self):
        self.env = {}       # local name -> value
        self.heap = {}      # (oid, field) -> value      (objects with concrete identity)
        self.ghost = {}     # ghost name -> value
        self.pc = []        # path condition + axiom instances
        self.trace = []     # line numbers / labels
        self.held = ()      # locks held (E2)
        self.cells = {}     # closure cells shared with enclosing scope: name -> value

    def fork(self):
        s = St()
        s.env = dict(self.env)
        s.heap = dict(self.heap)
        s.ghost = dict(self.ghost)
        s.pc = list(self.pc)
        s.trace = list(self.trace)
        s.held = self.held
        s.cells = dict(self.cells)
        return s

    def assume(self, *cs):
        for c in cs:
            if c is True:
                continue
            self.pc.append(c)
        return self

    def g(self, name):
        return self.ghost[name]


class Obligation:
    __slots__ = ('name', 'hyps', 'goal', 'trace', 'kind', 'unit', 'result', 'ms', 'backend', 'model', 'detail', 'isolated')

    def __init__(self, name, hyps, goal, trace, kind='assert'):
        self.name, self.hyps, self.goal, self.trace, self.kind = name, hyps, goal, trace, kind
        self.unit = None
        self.result = None
        self.ms = 0.0
        self.backend = None
        self.model = None
        self.detail = None
        self.isolated = False       # True: solved in a z3 context of its own (solve._check)


# ------------------------------------------------------------------ python-level values
class Obj:
    """A modelled object with concrete identity; mutable state lives in St.heap[(oid, field)]."""
    cls_name = 'object'
    trusted = None      # one-line justification when the model is a trusted stdlib contract

    def __init__(self, ex, label=None):
        self.oid = V.fresh_id()
        self.label = label or type(self).__name__
        ex.objs[self.oid] = self

    def val(self):
        return V.ref(z3.IntVal(self.oid))

    # field helpers
    def get(self, st, f):
        return st.heap[(self.oid, f)]

    def set(self, st, f, v):
        st.heap[(self.oid, f)] = v

    def has(self, st, f):
        return (self.oid, f) in st.heap

    def call(self, ex, st, meth, args, kwargs, node):
        fn = getattr(self, 'm_' + meth, None)
        if fn is None:
            raise Unsupported(f'{type(self).__name__}.{meth}()')
        return fn(ex, st, args, kwargs, node)

    def getattr(self, ex, st, name, node):
        if self.has(st, name):
            return [('ok', st, self.get(st, name))]
        if hasattr(self, 'm_' + name):
            return [('ok', st, BoundMethod(self, name))]
        fn = getattr(self, 'a_' + name, None)
        if fn is not None:
            return fn(ex, st, node)
        raise Unsupported(f'{type(self).__name__}.{name}')

    def setattr(self, ex, st, name, v, node):
        st = st.fork()
        self.set(st, name, v)
        return [('ok', st, None)]

    def havoc(self, ex, st):
        """Replace mutable model state by fresh values (loop cut / interference).  Default: plain fields."""
        for (o, f), v in list(st.heap.items()):
            if o == self.oid and is_z3(v):
                st.heap[(o, f)] = fresh(f'{self.label}.{f}', v.sort())

    def __repr__(self):
        return f'<{self.label}#{self.oid}>'


class BoundMethod:
    def __init__(self, obj, name):
        self.obj, self.name = obj, name

    def __repr__(self):
        return f'<bound {self.obj}.{self.name}>'


class SymMethod:
    """Method of an object with *symbolic* identity (a Val term); resolved through Exec.sym_models."""

    def __init__(self, model, recv, name):
        self.model, self.recv, self.name = model, recv, name


class Callable_:
    """Anything callable at model level: invoke(ex, st, args, kwargs, node) -> outcomes."""
    trusted = None

    def invoke(self, ex, st, args, kwargs, node):
        raise Unsupported(f'call of {type(self).__name__}')


class CoroutineObj:
    """the coroutine object created by calling a nested `async def` (units with coroutines_are_objects = True)"""

    def __init__(self, clo, args, kwargs):
        self.clo, self.args, self.kwargs = clo, args, kwargs


class Closure(Callable_):
    """A nested def / lambda of the function under verification, inlined at its call sites."""

    def __init__(self, node, defining_exec):
        self.node = node
        self.ex = defining_exec


class ClassCtor(Callable_):
    """Constructor of a repo class whose __init__ is verified by its own unit: the instance is the opaque term
    new_<Class>(args..., kwargs-pack).  (A caller is checked against the constructor's contract, not its body.)"""

    def __init__(self, name, local=False, kwnames=()):
        self.name = name
        self.local = local
        self.kwnames = tuple(kwnames)
        self.fns = {}

    def term(self, ex, args, kwargs):
        kwargs = dict(kwargs)
        pack = kwargs.pop('**', None)
        a = [box(ex, x) for x in args]
        names = sorted(kwargs)
        a += [box(ex, kwargs[k]) for k in names]
        a.append(pack.val if isinstance(pack, KwPack) else NOKW)
        key = (len(args), tuple(names))
        if key not in self.fns:
            nm = f'new_{self.name}' + (f'_{len(args)}' if True else '') + ''.join('_' + k for k in names)
            self.fns[key] = z3.Function(nm, *([Val] * len(a)), Val)
        return self.fns[key](*a)

    def invoke(self, ex, st, args, kwargs, node):
        return [('ok', st, self.term(ex, args, kwargs))]


class ExcClass:
    """An exception class object (known class)."""

    def __init__(self, name, exact=True, written=None):
        self.name = name
        self.exact = exact          # False: a builtin exception class outside the modelled tree, represented by its nearest modelled ancestor
        self.written = written or name

    def __repr__(self):
        return f'<class {self.written}>'


class KwPack:
    """An opaque **kwargs pack passed through unchanged."""

    def __init__(self, val=None, known=None):
        self.val = val if val is not None else fresh('kwpack')
        self.known = dict(known or {})


STD_MODULES = ('queue', 'threading', 'time', 'asyncio', 'concurrent', 'multiprocessing', 'os', 'sys', 'logging', 'traceback', 'random', 'signal',
               'itertools', 'functools', 'errno', 'inspect', 'contextlib', 'pickle', 'util')


class StarPack:
    """An opaque *args pack passed through unchanged (boxed as one value)."""

    def __init__(self, val=None):
        self.val = val if val is not None else fresh('argspack')


class Module:
    def __init__(self, name):
        self.name = name

    def __repr__(self):
        return f'<module {self.name}>'


pack_cons = z3.Function('argspack_cons', Val, Val, Val)      # (x, *pack) as one opaque value
same_object = z3.Function('same_object', Val, Val, z3.BoolSort())     # identity of two equal non-singleton values: unconstrained
NOKW = z3.Const('NOKW', Val)                    # the empty **kwargs pack
eargs = z3.Function('eargs', Val, Val)          # args tuple of an exception value
ecause = z3.Function('ecause', Val, Val)        # __cause__
ecode = z3.Function('ecode', Val, Val)          # SystemExit.code


def box(ex, v):
    if isinstance(v, PyTuple):
        return V.tup(V.seq_of([box(ex, i) for i in v.items]))
    if isinstance(v, Obj):
        return v.val()
    if is_z3(v):
        s = v.sort()
        if s == Val:
            return v
        if s == z3.IntSort():
            return V.intv(v)
        if s == z3.BoolSort():
            return V.boolv(v)
        if s == z3.RealSort():
            return V.realv(v)
        if s == z3.StringSort():
            return V.strv(v)
        if s == SeqV:
            return V.lst(v)
    if isinstance(v, StarPack):
        return v.val
    if isinstance(v, KwPack) and not v.known:
        return v.val
    if isinstance(v, (Callable_, ExcClass, BoundMethod, Module, KwPack, DictVal, CoroutineObj)):
        # python-level handle: give it an identity
        for k, o in ex.objs.items():
            if o is v:
                return V.ref(z3.IntVal(k))
        k = V.fresh_id()
        ex.objs[k] = v
        return V.ref(z3.IntVal(k))
    raise Unsupported(f'cannot box {v!r}')


def unbox_handle(ex, v):
    """If v is ref(<concrete oid>) of a registered python-level object, return that object."""
    if is_z3(v) and v.sort() == Val:
        v2 = z3.simplify(v)
        if v2.decl().eq(V.ref) and z3.is_int_value(v2.arg(0)):
            k = v2.arg(0).as_long()
            if k in ex.objs:
                return ex.objs[k]
    return v


def as_int(ex, st, v, what='int'):
    if is_z3(v):
        if v.sort() == z3.IntSort():
            return v
        if v.sort() == z3.BoolSort():
            return z3.If(v, 1, 0)
        if v.sort() == Val:
            ex.oblige(st, f'{what}: value is an int', z3.Or(V.is_intv(v), V.is_boolv(v)))
            return z3.If(V.is_boolv(v), z3.If(V.bval(v), 1, 0), V.ival(v))
    raise Unsupported(f'not an int: {v!r}')


def as_num(ex, st, v):
    if is_z3(v) and v.sort() in (z3.IntSort(), z3.RealSort()):
        return v
    if is_z3(v) and v.sort() == Val:
        if not getattr(ex.unit, 'numeric_vals_are_ints', False):
            raise Unsupported('numeric op on opaque value')
        ex.oblige(st, 'numeric operand is an int', V.is_intv(v))
        return V.ival(v)
    raise Unsupported(f'not a number: {v!r}')


def as_seq(ex, st, v, what='sequence'):
    """Native Seq view of a list/tuple value."""
    if isinstance(v, PyTuple):
        return V.seq_of([box(ex, i) for i in v.items])
    if is_z3(v) and v.sort() == SeqV:
        return v
    if is_z3(v) and v.sort() == Val:
        ex.oblige(st, f'{what}: value is a list or tuple', z3.Or(V.is_lst(v), V.is_tup(v)))
        return z3.If(V.is_lst(v), V.elems(v), V.items(v))
    raise Unsupported(f'not a sequence: {v!r}')


# ------------------------------------------------------------------ executor
class Exec:
    MAX_PATHS = 4000

    def __init__(self, fn_node, unit, parent=None):
        self.fn = fn_node
        self.unit = unit                  # the verification unit (sidecar): loops, hooks, names
        self.parent = parent
        self.objs = parent.objs if parent else {}
        self.obls = parent.obls if parent else []
        self.covers = parent.covers if parent else {}
        self.globals = parent.globals if parent else {}
        self.sym_models = parent.sym_models if parent else {}
        self.ignored = parent.ignored if parent else []
        self.reached = parent.reached if parent else set()
        self.npaths = 0
        loops = [x for x in ast.walk(fn_node) if isinstance(x, (ast.For, ast.AsyncFor, ast.While))]
        # syntactic ordinal, nested functions excluded
        own = []
        self._collect_loops(fn_node, own, top=True)
        self.loop_index = {id(n): i for i, n in enumerate(own)}
        self.feas_solver = None
        self.is_generator = any(isinstance(x, (ast.Yield, ast.YieldFrom)) for x in self._own_nodes(fn_node))

    # -- helpers over the AST
    def _own_nodes(self, fn):
        stack = list(fn.body) if hasattr(fn, 'body') and isinstance(fn.body, list) else [fn.body]
        while stack:
            n = stack.pop()
            yield n
            for c in ast.iter_child_nodes(n):
                if isinstance(c, (ast.FunctionDef, ast.AsyncFunctionDef, ast.Lambda, ast.ClassDef)):
                    continue
                stack.append(c)

    def _collect_loops(self, node, out, top=False):
        for c in ast.iter_child_nodes(node):
            if isinstance(c, (ast.FunctionDef, ast.AsyncFunctionDef, ast.Lambda, ast.ClassDef)):
                continue
            if isinstance(c, (ast.For, ast.AsyncFor, ast.While)):
                out.append(c)
            self._collect_loops(c, out)

    # -- obligations
    def oblige(self, st, name, goal, kind='assert'):
        if goal is True:
            goal = z3.BoolVal(True)
        if goal is False:
            goal = z3.BoolVal(False)
        ob = Obligation(f'{self.unit.qual}: {name}', list(st.pc), goal, list(st.trace), kind)
        ob.unit = self.unit.name
        self.obls.append(ob)
        return ob

    def cover(self, label, st):
        """Record that `label` was reached on a feasible path (vacuity guard)."""
        self.covers.setdefault(f'{self.unit.qual}: {label}', []).append(list(st.pc))

    def feasible(self, st, timeout=2000):
        s = z3.Solver()
        s.set('timeout', timeout)
        s.add(st.pc)
        return s.check() != z3.unsat

    # -- outcome plumbing
    def bind(self, outs, fn):
        res = []
        for k, s, v in outs:
            if k != 'ok':
                res.append((k, s, v))
            else:
                res.extend(fn(s, v))
        return res

    def raise_new(self, st, cls_name, label=None, args=None):
        st = st.fork()
        e = fresh('exc_' + cls_name.replace('.', '_'))
        st.assume(V.ucls(e) == V.K[cls_name], *V.cls_facts(e))
        if args is not None:
            st.assume(eargs(e) == args)
        return ('raise', st, e)

    # ================================================================ expressions
    def ev(self, e, st):
        m = getattr(self, 'ev_' + type(e).__name__, None)
        if m is None:
            raise Unsupported(f'expression {type(e).__name__} at line {getattr(e, "lineno", "?")}')
        return m(e, st)

    def ev_Constant(self, e, st):
        v = e.value
        if v is None:
            return [('ok', st, NONE)]
        if isinstance(v, bool):
            return [('ok', st, z3.BoolVal(v))]
        if isinstance(v, int):
            return [('ok', st, z3.IntVal(v))]
        if isinstance(v, float):
            return [('ok', st, z3.RealVal(repr(v)))]
        if isinstance(v, str):
            return [('ok', st, z3.StringVal(v))]
        if isinstance(v, bytes):
            return [('ok', st, V.strv(z3.StringVal('bytes:' + v.decode('latin1'))))]
        if v is Ellipsis:
            return [('ok', st, NONE)]
        raise Unsupported(f'constant {v!r}')

    def lookup(self, name, st, node=None):
        if name in st.env:
            v = st.env[name]
            if v is UNBOUND:
                self.oblige(st, f'line {getattr(node, "lineno", "?")}: local `{name}` is bound when read', False)
                return None
            return v
        if name in st.cells:
            v = st.cells[name]
            if v is UNBOUND:
                self.oblige(st, f'line {getattr(node, "lineno", "?")}: free variable `{name}` is bound when read', False)
                return None
            return v
        if name in self.globals:
            return self.globals[name]
        cn = V.resolve_class(name, getattr(self.unit, 'class_aliases', None))
        if cn is not None and cn in V.CLASS_TREE and name not in ('int', 'str', 'float', 'bool', 'list', 'tuple', 'dict', 'type', 'bytes', 'object'):
            return ExcClass(cn)
        if name in ('int', 'str', 'float', 'bool', 'list', 'tuple', 'dict', 'bytes', 'object'):
            return TypeName(name)
        if name in STD_MODULES:
            return Module(name)
        import builtins
        b = getattr(builtins, name, None)
        if isinstance(b, type) and issubclass(b, BaseException):
            # a builtin exception class outside the modelled tree: raising it creates an instance of its nearest modelled ancestor
            # (the abstraction is "most specific KNOWN ancestor"); catching by it is not supported (exc_match)
            for anc in b.__mro__[1:]:
                if anc.__name__ in V.CLASS_TREE:
                    return ExcClass(anc.__name__, exact=False, written=name)
        # a module-level function of the file under verification that no contract models (typically a helper extracted by a refactoring): its real body is
        # inlined at the call (callee's code instead of a callee contract), like an unmodelled method of `self`
        fn = self.unit.resolve_module_function(name) if hasattr(self.unit, 'resolve_module_function') else None
        if fn is not None:
            self.note_ignored(node, f'module-level function `{name}` has no contract: its body (line {fn.lineno}) is inlined')
            return Closure(fn, self)
        if not self._known_global(name):
            # not a local, not a parameter or local of an enclosing function, not defined at module level, not a builtin: CPython raises NameError here
            self.oblige(st, f'line {getattr(node, "lineno", "?")}: name `{name}` is defined when read', False)
            return None
        raise Unsupported(f'name `{name}`')

    def ev_Name(self, e, st):
        v = self.lookup(e.id, st, e)
        if v is None:
            return []     # path dies: CPython raises UnboundLocalError (reported as failed obligation)
        return [('ok', st, v)]

    def ev_Await(self, e, st):
        outs = self.ev(e.value, st)
        hook = getattr(self.unit, 'on_await', None)

        def f(s, v):
            if isinstance(v, CoroutineObj):
                return self.inline(s, v.clo, v.args, v.kwargs, e)
            if isinstance(v, Awaitable_):
                return v.await_(self, s, e)
            if hook:
                return hook(self, s, v, e)
            return [('ok', s, v)]
        return self.bind(outs, f)

    def ev_Attribute(self, e, st):
        def f(s, base):
            return self.getattr(s, base, e.attr, e)
        return self.bind(self.ev(e.value, st), f)

    def getattr(self, st, base, attr, node):
        base = unbox_handle(self, base)
        if isinstance(base, Obj):
            return base.getattr(self, st, attr, node)
        if isinstance(base, Module):
            full = base.name + '.' + attr
            if full in self.globals:
                return [('ok', st, self.globals[full])]
            cn = V.resolve_class(full, getattr(self.unit, 'class_aliases', None))
            if cn is not None:
                return [('ok', st, ExcClass(cn))]
            return [('ok', st, Module(full))]
        if is_z3(base) and base.sort() == Val:
            key = ast.unparse(node.value) if hasattr(node, 'value') else None
            model = self.sym_models.get(key)
            if model is None:
                # exception attributes
                if attr == 'with_traceback':
                    # BaseException.with_traceback(tb): sets __traceback__ and returns the exception itself
                    from .models import Fn
                    return [('ok', st, Fn(lambda e, s, a, k, n, b=base: [('ok', s, b)], name='with_traceback'))]
                if attr == 'code':
                    return [('ok', st, ecode(base))]
                if attr == 'args':
                    return [('ok', st, eargs(base))]
                if attr == '__cause__':
                    if '#cause' in st.ghost:
                        return [('ok', st, z3.Select(st.ghost['#cause'], base))]
                    return [('ok', st, ecause(base))]
                if attr == '__traceback__':
                    return [('ok', st, etb(base))]
                raise Unsupported(f'attribute `.{attr}` on opaque value `{key}` (line {getattr(node, "lineno", "?")})')
            return model.getattr(self, st, base, attr, node)
        if is_z3(base) and base.sort() == SeqV:
            return [('ok', st, SeqMethod(node.value, attr, base))]
        if isinstance(base, DictVal):
            return [('ok', st, BoundMethod(base, attr))]
        raise Unsupported(f'attribute `.{attr}` on {base!r} (line {getattr(node, "lineno", "?")})')

    def ev_Tuple(self, e, st):
        if any(isinstance(x, ast.Starred) for x in e.elts):
            # (a, b, *pack) with an opaque *args pack as the LAST element: a new pack that remembers its known head
            if isinstance(e.elts[-1], ast.Starred) and not any(isinstance(x, ast.Starred) for x in e.elts[:-1]):
                outs = [('ok', st, [])]
                for el in e.elts[:-1]:
                    outs = self.bind(outs, lambda s, acc, el=el: self.bind(self.ev(el, s), lambda s2, v: [('ok', s2, acc + [v])]))

                def fin(s, acc):
                    def g(s2, tail):
                        if isinstance(tail, StarPack):
                            v = tail.val
                            for h in reversed(acc):
                                v = pack_cons(box(self, h), v)
                            p = StarPack(v)
                            p.head, p.tail = list(acc) + list(getattr(tail, 'head', [])), getattr(tail, 'tail', tail)
                            return [('ok', s2, p)]
                        if isinstance(tail, PyTuple):
                            return [('ok', s2, PyTuple(list(acc) + list(tail.items)))]
                        raise Unsupported('starred in tuple (not an *args pack)')
                    return self.bind(self.ev(e.elts[-1].value, s), g)
                return self.bind(outs, fin)
            raise Unsupported('starred in tuple')
        outs = [('ok', st, [])]
        for el in e.elts:
            outs = self.bind(outs, lambda s, acc, el=el: self.bind(self.ev(el, s), lambda s2, v: [('ok', s2, acc + [v])]))
        return self.bind(outs, lambda s, acc: [('ok', s, PyTuple(acc))])

    def ev_List(self, e, st):
        if any(isinstance(x, ast.Starred) for x in e.elts):
            raise Unsupported('starred in list')
        outs = [('ok', st, [])]
        for el in e.elts:
            outs = self.bind(outs, lambda s, acc, el=el: self.bind(self.ev(el, s), lambda s2, v: [('ok', s2, acc + [v])]))
        return self.bind(outs, lambda s, acc: [('ok', s, V.seq_of([box(self, a) for a in acc]))])

    def ev_Dict(self, e, st):
        # small literal dicts: python-level mapping (keys must be constants) ; `**pack` entries kept opaque
        d = DictVal()
        outs = [('ok', st, d)]
        for k, v in zip(e.keys, e.values):
            if k is None:
                def g(s, dd, v=v):
                    return self.bind(self.ev(v, s), lambda s2, vv: [('ok', s2, dd.with_pack(vv))])
                outs = self.bind(outs, g)
                continue
            if not isinstance(k, ast.Constant):
                raise Unsupported('dict literal with non-constant key')

            def g(s, dd, k=k, v=v):
                return self.bind(self.ev(v, s), lambda s2, vv: [('ok', s2, dd.with_item(k.value, vv))])
            outs = self.bind(outs, g)
        return outs

    def ev_UnaryOp(self, e, st):
        def f(s, v):
            if isinstance(e.op, ast.Not):
                return [('ok', s, z3.Not(self.truth(s, v)))]
            if isinstance(e.op, ast.USub):
                return [('ok', s, -as_num(self, s, v))]
            raise Unsupported(f'unary {type(e.op).__name__}')
        return self.bind(self.ev(e.operand, st), f)

    def ev_BoolOp(self, e, st):
        # short-circuit, forking on each operand so later operands are only evaluated when needed
        is_and = isinstance(e.op, ast.And)

        def go(i, s):
            outs = self.ev(e.values[i], s)
            if i == len(e.values) - 1:
                return self.bind(outs, lambda s2, v: [('ok', s2, v)])

            def f(s2, v):
                t = self.truth(s2, v)
                res = []
                s_stop = s2.fork().assume(z3.Not(t) if is_and else t)
                s_go = s2.fork().assume(t if is_and else z3.Not(t))
                if self.feasible(s_stop):
                    res.append(('ok', s_stop, v))
                if self.feasible(s_go):
                    res.extend(go(i + 1, s_go))
                return res
            return self.bind(outs, f)
        return go(0, st)

    def ev_IfExp(self, e, st):
        def f(s, c):
            t = self.truth(s, c)
            res = []
            s1 = s.fork().assume(t)
            s2 = s.fork().assume(z3.Not(t))
            if self.feasible(s1):
                res.extend(self.ev(e.body, s1))
            if self.feasible(s2):
                res.extend(self.ev(e.orelse, s2))
            return res
        return self.bind(self.ev(e.test, st), f)

    def ev_BinOp(self, e, st):
        def f(s, a):
            return self.bind(self.ev(e.right, s), lambda s2, b: self.binop(s2, e.op, a, b, e))
        return self.bind(self.ev(e.left, st), f)

    def binop(self, st, op, a, b, node):
        if is_z3(a) and is_z3(b) and a.sort() == SeqV and b.sort() == SeqV and isinstance(op, ast.Add):
            return [('ok', st, z3.Concat(a, b))]
        if is_z3(a) and is_z3(b) and a.sort() == z3.StringSort() and b.sort() == z3.StringSort() and isinstance(op, ast.Add):
            return [('ok', st, z3.Concat(a, b))]
        if is_z3(a) and a.sort() == SeqV and isinstance(op, ast.Mult):
            n = as_int(self, st, b)
            if z3.is_int_value(z3.simplify(n)) and z3.is_app_of(a, z3.Z3_OP_SEQ_UNIT):
                k = z3.simplify(n).as_long()
                return [('ok', st, V.seq_of([a.arg(0)] * k))]
            r = fresh('rep', SeqV)
            st = st.fork().assume(z3.Length(r) == z3.If(n > 0, n * z3.Length(a), 0))
            return [('ok', st, r)]
        try:
            x, y = as_num(self, st, a), as_num(self, st, b)
        except Unsupported:
            hook = getattr(self.unit, 'on_binop', None)
            if hook:
                r = hook(self, st, op, a, b, node)
                if r is not None:
                    return r
            raise
        if isinstance(op, ast.Add):
            return [('ok', st, x + y)]
        if isinstance(op, ast.Sub):
            return [('ok', st, x - y)]
        if isinstance(op, ast.Mult):
            return [('ok', st, x * y)]
        if isinstance(op, ast.Div):
            self.oblige(st, f'line {node.lineno}: division by non-zero', y != 0)
            return [('ok', st, z3.ToReal(x) / z3.ToReal(y) if x.sort() == z3.IntSort() or y.sort() == z3.IntSort() else x / y)]
        if isinstance(op, ast.Mod) and x.sort() == z3.IntSort() and y.sort() == z3.IntSort():
            self.oblige(st, f'line {node.lineno}: modulo by non-zero', y != 0)
            return [('ok', st, x % y)]
        if isinstance(op, ast.FloorDiv) and x.sort() == z3.IntSort() and y.sort() == z3.IntSort():
            self.oblige(st, f'line {node.lineno}: division by non-zero', y != 0)
            return [('ok', st, x / y)]
        raise Unsupported(f'binop {type(op).__name__}')

    def ev_Compare(self, e, st):
        def go(i, s, left, acc):
            if i == len(e.ops):
                return [('ok', s, z3.And(acc) if len(acc) > 1 else acc[0])]

            def f(s2, right):
                r = self.compare(s2, e.ops[i], left, right, e)
                return go(i + 1, s2, right, acc + [r])
            return self.bind(self.ev(e.comparators[i], s), f)
        return self.bind(self.ev(e.left, st), lambda s, l: go(0, s, l, []))

    def eq(self, st, a, b):
        a, b = unbox_handle(self, a), unbox_handle(self, b)
        if not is_z3(a) or not is_z3(b):
            if isinstance(a, PyTuple) and isinstance(b, PyTuple):
                if len(a.items) != len(b.items):
                    return z3.BoolVal(False)
                return z3.And([self.eq(st, x, y) for x, y in zip(a.items, b.items)])
            if not is_z3(a) and not is_z3(b):
                if isinstance(a, ExcClass) and isinstance(b, ExcClass):
                    return z3.BoolVal(a.name == b.name)
                return z3.BoolVal(a is b)
            # python-level handle vs z3 value
            try:
                return box(self, a) == box(self, b)
            except Unsupported:
                return z3.BoolVal(False)
        if a.sort() == b.sort():
            return a == b
        num = (z3.IntSort(), z3.RealSort())
        if a.sort() in num and b.sort() in num:
            return z3.ToReal(a) == b if a.sort() == z3.IntSort() else a == z3.ToReal(b)
        return box(self, a) == box(self, b)

    def identical(self, st, a, b):
        """`a is b`: equality for the singletons (None, True, False) and for objects with identity (refs);
        for other values identity implies equality but not conversely (an equal copy is a different object)."""
        e = self.eq(st, a, b)
        try:
            ba, bb = box(self, a), box(self, b)
        except Unsupported:
            return e
        for x in (ba, bb):
            sx = z3.simplify(x)
            if sx.eq(NONE) or z3.is_app_of(sx, z3.Z3_OP_DT_CONSTRUCTOR) and sx.decl().name() in ('none', 'boolv', 'ref'):
                return e
        return z3.And(e, z3.Or(V.is_none(ba), V.is_boolv(ba), V.is_ref(ba), V.is_ref(bb), same_object(ba, bb)))

    def compare(self, st, op, a, b, node):
        if isinstance(op, ast.Eq):
            return self.eq(st, a, b)
        if isinstance(op, ast.NotEq):
            return z3.Not(self.eq(st, a, b))
        if isinstance(op, ast.Is):
            return self.identical(st, a, b)
        if isinstance(op, ast.IsNot):
            return z3.Not(self.identical(st, a, b))
        if isinstance(op, (ast.In, ast.NotIn)):
            r = self.contains(st, b, a, node)
            return r if isinstance(op, ast.In) else z3.Not(r)
        x, y = as_num(self, st, a), as_num(self, st, b)
        if isinstance(op, ast.Lt):
            return x < y
        if isinstance(op, ast.LtE):
            return x <= y
        if isinstance(op, ast.Gt):
            return x > y
        if isinstance(op, ast.GtE):
            return x >= y
        raise Unsupported(f'compare {type(op).__name__}')

    def contains(self, st, container, item, node):
        if isinstance(container, PyTuple):
            return z3.Or([self.eq(st, item, c) for c in container.items])
        if isinstance(container, DictVal):
            if z3.is_string_value(item):
                return z3.BoolVal(item.as_string() in container.items)
        if isinstance(container, Obj) and hasattr(container, 'contains'):
            return container.contains(self, st, item)
        if is_z3(container) and container.sort() == SeqV:
            return z3.Contains(container, z3.Unit(box(self, item)))
        raise Unsupported(f'`in` on {container!r}')

    def truth(self, st, v):
        v = unbox_handle(self, v)
        if isinstance(v, PyTuple):
            return z3.BoolVal(len(v.items) > 0)
        if isinstance(v, (Obj, Callable_, ExcClass, Module, BoundMethod)):
            if isinstance(v, Obj) and hasattr(v, 'truth'):
                return v.truth(self, st)
            return z3.BoolVal(True)
        if isinstance(v, DictVal):
            if v.pack is None:
                return z3.BoolVal(len(v.items) > 0)
            raise Unsupported('truth of dict with opaque pack')
        if isinstance(v, KwPack):
            if v.known:
                return z3.BoolVal(True)
            return v.val != NOKW
        if is_z3(v):
            s = v.sort()
            if s == z3.BoolSort():
                return v
            if s == z3.IntSort():
                return v != 0
            if s == z3.RealSort():
                return v != 0
            if s == SeqV:
                return z3.Length(v) > 0
            if s == z3.StringSort():
                return z3.Length(v) > 0
            if s == Val:
                st.assume(*self.truth_facts(v))
                return V.truthy(v)
        raise Unsupported(f'truthiness of {v!r}')

    def truth_facts(self, v):
        return [z3.Implies(V.is_none(v), z3.Not(V.truthy(v))),
                z3.Implies(V.is_boolv(v), V.truthy(v) == V.bval(v)),
                z3.Implies(V.is_intv(v), V.truthy(v) == (V.ival(v) != 0)),
                z3.Implies(V.is_lst(v), V.truthy(v) == (z3.Length(V.elems(v)) > 0)),
                z3.Implies(V.is_tup(v), V.truthy(v) == (z3.Length(V.items(v)) > 0)),
                z3.Implies(V.is_strv(v), V.truthy(v) == (z3.Length(V.sval(v)) > 0)),
                z3.Implies(V.isinst(v, 'BaseException'), V.truthy(v))]

    def ev_Subscript(self, e, st):
        def f(s, base):
            if isinstance(e.slice, ast.Slice):
                b = unbox_handle(self, base)
                if isinstance(b, Obj) and hasattr(b, 'slice_obj') and e.slice.step is None:
                    def bound(expr, s0):
                        if expr is None:
                            return [('ok', s0, None)]
                        return self.bind(self.ev(expr, s0), lambda s1, v: [('ok', s1, as_int(self, s1, v))])
                    return self.bind(bound(e.slice.lower, s), lambda s1, lo: self.bind(bound(e.slice.upper, s1), lambda s2, hi: b.slice_obj(self, s2, lo, hi, e)))
                return self.slice(s, base, e.slice, e)
            return self.bind(self.ev(e.slice, s), lambda s2, idx: self.index(s2, base, idx, e))
        return self.bind(self.ev(e.value, st), f)

    def index(self, st, base, idx, node):
        base = unbox_handle(self, base)
        if isinstance(base, PyTuple):
            i = z3.simplify(as_int(self, st, idx)) if is_z3(idx) else None
            if i is not None and z3.is_int_value(i):
                k = i.as_long()
                if -len(base.items) <= k < len(base.items):
                    return [('ok', st, base.items[k])]
            raise Unsupported('tuple index not constant')
        if isinstance(base, DictVal):
            if z3.is_string_value(idx) and idx.as_string() in base.items:
                return [('ok', st, base.items[idx.as_string()])]
            raise Unsupported('dict index')
        if isinstance(base, Obj) and hasattr(base, 'getitem'):
            return base.getitem(self, st, idx, node)
        if is_z3(base) and base.sort() == Val:
            model = self.sym_models.get(ast.unparse(node.value))
            if model is not None and hasattr(model, 'getitem'):
                return model.getitem(self, st, base, idx, node)
        if is_z3(base) and base.sort() == z3.StringSort():
            i = as_int(self, st, idx)
            n = z3.Length(base)
            self.oblige(st, f'line {node.lineno}: string index in range', z3.And(i >= -n, i < n))
            return [('ok', st, z3.SubString(base, z3.If(i < 0, n + i, i), 1))]
        seq = as_seq(self, st, base, f'line {node.lineno}: subscript')
        i = as_int(self, st, idx)
        n = z3.Length(seq)
        self.oblige(st, f'line {node.lineno}: index in range', z3.And(i >= -n, i < n))
        return [('ok', st, seq[z3.If(i < 0, n + i, i)])]

    def slice(self, st, base, sl, node):
        if sl.step is not None:
            raise Unsupported('slice step')
        seq = as_seq(self, st, base)
        n = z3.Length(seq)

        def bound(expr, default, s):
            if expr is None:
                return [('ok', s, default)]
            return self.bind(self.ev(expr, s), lambda s2, v: [('ok', s2, self._clamp(as_int(self, s2, v), n))])

        def f(s, lo):
            return self.bind(bound(sl.upper, n, s), lambda s2, hi: [('ok', s2, z3.SubSeq(seq, lo, z3.If(hi > lo, hi - lo, 0)))])
        return self.bind(bound(sl.lower, z3.IntVal(0), st), f)

    def _clamp(self, i, n):
        i = z3.If(i < 0, n + i, i)
        return z3.If(i < 0, 0, z3.If(i > n, n, i))

    def _known_global(self, name):
        """is `name` a builtin, a parameter of an enclosing function, or defined at module level of the file under verification?"""
        import builtins
        if hasattr(builtins, name) or name in STD_MODULES:
            return True
        if not hasattr(self, '_module_names'):
            names = set()
            try:
                from .unit import load_source
                tree = ast.parse(load_source(self.unit.file, getattr(self.unit, '_override', None)))
                for x in tree.body:
                    for t in ast.walk(x) if isinstance(x, (ast.Assign, ast.AnnAssign, ast.AugAssign, ast.Import, ast.ImportFrom, ast.Try, ast.If, ast.With)) else [x]:
                        if isinstance(t, (ast.FunctionDef, ast.AsyncFunctionDef, ast.ClassDef)):
                            names.add(t.name)
                        elif isinstance(t, ast.Name) and isinstance(t.ctx, ast.Store):
                            names.add(t.id)
                        elif isinstance(t, ast.alias):
                            names.add((t.asname or t.name).split('.')[0])
                # parameters and locals of enclosing functions (free variables of a nested function)
                for x in ast.walk(tree):
                    if isinstance(x, (ast.FunctionDef, ast.AsyncFunctionDef)) and any(y is self.fn for y in ast.walk(x)):
                        names |= {a.arg for a in x.args.posonlyargs + x.args.args + x.args.kwonlyargs} | {a.arg for a in (x.args.vararg, x.args.kwarg) if a}
                        names |= {t.id for t in ast.walk(x) if isinstance(t, ast.Name) and isinstance(t.ctx, ast.Store)}
            except Exception:      # noqa: BLE001
                names = None
            self._module_names = names
        return self._module_names is None or name in self._module_names

    def ev_JoinedStr(self, e, st):
        hook = getattr(self.unit, 'on_fstring', None)
        if hook:
            r = hook(self, st, e)
            if r is not None:
                return r
        # f-strings are only used as messages: the resulting TEXT is an opaque string term (listed in evidence) -- but a CALL inside a replacement field
        # is evaluated like any other call: it may raise, and an exception raised while a message is being built propagates like any other
        todo = []
        for part in e.values:
            if isinstance(part, ast.FormattedValue):
                todo += self.effectful_calls(part.value)
        self.note_ignored(e, 'f-string text (kept as opaque string)' + ('; calls inside it are evaluated' if todo else ''))

        # formatting a plain LOCAL whose value is an object of unknown class -- `{e}`, `{x!r}` -- runs that class's __str__ / __repr__ / __format__: user code,
        # which may raise (an exception class whose __str__ formats its args wrongly ...).  Values known to be None / int / bool / float / str format totally.
        # a plain local read inside a replacement field must be bound (UnboundLocalError otherwise), like any other read
        if not hasattr(self, '_assigned_locals'):
            self._assigned_locals = {t.id for x in ast.walk(self.fn) for t in ast.walk(x) if isinstance(x, (ast.Assign, ast.AugAssign, ast.AnnAssign, ast.For, ast.With, ast.NamedExpr))
                                     and isinstance(t, ast.Name) and isinstance(t.ctx, ast.Store)} if getattr(self, 'fn', None) is not None else set()
        for part in e.values:
            if isinstance(part, ast.FormattedValue):
                for nm in ast.walk(part.value):
                    if isinstance(nm, ast.Name) and isinstance(nm.ctx, ast.Load) and nm.id in self._assigned_locals and nm.id not in self.globals \
                            and (nm.id not in st.env or st.env[nm.id] is UNBOUND) and nm.id not in st.cells \
                            and not any(isinstance(c, (ast.ListComp, ast.GeneratorExp, ast.SetComp, ast.DictComp, ast.Lambda)) for c in ast.walk(part.value)):
                        self.oblige(st, f'line {getattr(e, "lineno", "?")}: local `{nm.id}` is bound when read (inside an f-string)', False)
                        return []
                    if isinstance(nm, ast.Name) and isinstance(nm.ctx, ast.Load) and nm.id not in self._assigned_locals and nm.id not in st.env and nm.id not in st.cells \
                            and nm.id not in self.globals and not self._known_global(nm.id) \
                            and not any(isinstance(c, (ast.ListComp, ast.GeneratorExp, ast.SetComp, ast.DictComp, ast.Lambda)) for c in ast.walk(part.value)):
                        self.oblige(st, f'line {getattr(e, "lineno", "?")}: name `{nm.id}` is defined when read (inside an f-string)', False)
                        return []
        user_vals = []
        for part in e.values:
            if getattr(self.unit, 'user_format_total', False):
                break       # the unit's stated precondition: the values it formats have a total __str__ / __repr__
            if isinstance(part, ast.FormattedValue) and isinstance(part.value, ast.Name) and (part.value.id in st.env or part.value.id in st.cells):
                v = st.env.get(part.value.id, st.cells.get(part.value.id))
                if is_z3(v) and v.sort() == Val:
                    user_vals.append(v)

        def finish(s):
            outs = [('ok', s, fresh('fstr', z3.StringSort()))]
            for v in user_vals:
                prim = z3.Or(V.is_none(v), V.is_intv(v), V.is_boolv(v), V.is_realv(v), V.is_strv(v))
                s_bad = s.fork().assume(z3.Not(prim))
                if self.feasible(s_bad):
                    boom = fresh('format_failure')
                    s_bad.assume(V.isinst(boom, 'Exception'), *V.cls_facts(boom))
                    outs.append(('raise', s_bad, boom))
            return outs

        def go(s, k):
            if k == len(todo):
                return finish(s)
            return self.bind(self.ev(todo[k], s), lambda s2, _v: go(s2, k + 1))
        return go(st, 0)

    def ev_Lambda(self, e, st):
        return [('ok', st, Closure(e, self))]

    def ev_Yield(self, e, st):
        return self.do_yield(e, st)

    def ev_NamedExpr(self, e, st):
        def f(s, v):
            s = s.fork()
            s.env[e.target.id] = v
            return [('ok', s, v)]
        return self.bind(self.ev(e.value, st), f)

    def ev_ListComp(self, e, st):
        hook = getattr(self.unit, 'on_comprehension', None)
        if hook:
            r = hook(self, st, e)
            if r is not None:
                return r
        # [f(v) for v in seq] over a Seq with a *projection* body: supported shapes v[k]
        if len(e.generators) == 1 and not e.generators[0].ifs and isinstance(e.generators[0].target, ast.Name):
            g = e.generators[0]
            var = g.target.id
            if isinstance(e.elt, ast.Subscript) and isinstance(e.elt.value, ast.Name) and e.elt.value.id == var \
                    and isinstance(e.elt.slice, ast.Constant) and isinstance(e.elt.slice.value, int):
                k = e.elt.slice.value

                def f(s, src):
                    seq = as_seq(self, s, src)
                    r = fresh('proj', SeqV)
                    s = s.fork().assume(z3.Length(r) == z3.Length(seq))
                    s.ghost.setdefault('#proj', []).append((r, seq, k))
                    return [('ok', s, r)]
                return self.bind(self.ev(g.iter, st), f)
        raise Unsupported(f'list comprehension at line {e.lineno}')

    ev_GeneratorExp = ev_ListComp

    def _comp_hook(self, e, st):
        hook = getattr(self.unit, 'on_comprehension', None)
        if hook:
            r = hook(self, st, e)
            if r is not None:
                return r
        raise Unsupported(f'{type(e).__name__} at line {e.lineno}')

    ev_DictComp = _comp_hook
    ev_SetComp = _comp_hook
    ev_GeneratorExp = _comp_hook

    def ev_Starred(self, e, st):
        raise Unsupported('starred expression')

    # calls known never to raise (pure look-ups); everything else inside a message is evaluated
    TOTAL_CALLS = ('len', 'repr', 'str', 'type', 'id', 'round', 'int', 'float', 'abs', 'perf_counter', 'time.perf_counter', 'monotonic', 'time.monotonic', 'time.time',
                   'multiprocessing.current_process', 'threading.current_thread', 'current_thread', 'current_process', 'os.getpid', 'datetime.now', 'datetime.datetime.now', 'sys.exc_info')

    def effectful_calls(self, n):
        """outermost calls inside the expression n that are neither known-total nor ignored by pattern (operators and format specs applied to values are assumed not to raise)"""
        out = []

        def walk(x):
            if isinstance(x, ast.Call):
                src = ast.unparse(x.func)
                if src in self.TOTAL_CALLS or self.unit.is_ignored_call(src):
                    for a in list(x.args) + [k.value for k in x.keywords]:
                        walk(a)
                    if isinstance(x.func, ast.Attribute):
                        walk(x.func.value)
                else:
                    out.append(x)
                return
            if isinstance(x, ast.Lambda):
                return
            if isinstance(x, (ast.GeneratorExp, ast.ListComp, ast.SetComp, ast.DictComp)):
                walk(x.generators[0].iter)          # what is iterated over is evaluated (in the enclosing scope); the element expressions are not
                return
            for c in ast.iter_child_nodes(x):
                walk(c)
        walk(n)
        return out

    def eval_for_effects(self, nodes, st, then):
        """evaluate the call nodes in order (exceptions propagate), drop their values, continue with then(state)"""
        def go(s, k):
            if k == len(nodes):
                return then(s)
            return self.bind(self.ev(nodes[k], s), lambda s2, _v: go(s2, k + 1))
        return go(st, 0)

    def note_ignored(self, node, why):
        self.ignored.append((getattr(node, 'lineno', 0), why))

    # ---------------------------------------------------------------- calls
    def ev_Call(self, e, st):
        f = e.func
        src = ast.unparse(f)
        # ignore patterns (logging etc.)
        root = f
        while isinstance(root, (ast.Attribute, ast.Call, ast.Subscript)):
            root = root.func if isinstance(root, ast.Call) else root.value
        shadowed = isinstance(root, ast.Name) and (root.id in st.env or root.id in st.cells)
        if self.unit.is_ignored_call(src, local_root=shadowed):
            inner = []
            for a in list(e.args) + [k.value for k in e.keywords]:
                if isinstance(a, ast.JoinedStr):
                    inner.append(a)         # an f-string is built eagerly, whatever the log level
                else:
                    inner += self.effectful_calls(a)
            self.note_ignored(e, f'call `{src}(...)` dropped (no effect on the property; assumed not to raise' + ('; calls inside its arguments are evaluated)' if inner else ')'))
            return self.eval_for_effects(inner, st, lambda s: [('ok', s, NONE)])
        hook = getattr(self.unit, 'on_call', None)
        if hook:
            r = hook(self, st, e, src)
            if r is not None:
                return r
        if isinstance(f, ast.Name) and f.id in BUILTINS and f.id not in st.env and f.id not in st.cells and f.id not in self.globals:
            return BUILTINS[f.id](self, e, st)

        def with_target(s, target):
            return self.bind(self.evargs(e, s), lambda s2, ak: self.call_value(s2, target, ak[0], ak[1], e))
        return self.bind(self.ev(f, st), with_target)

    def evargs(self, e, st):
        outs = [('ok', st, ([], {}))]
        for a in e.args:
            if isinstance(a, ast.Starred):
                def g(s, ak, a=a):
                    def h(s2, v):
                        if isinstance(v, PyTuple):
                            return [('ok', s2, (ak[0] + list(v.items), ak[1]))]
                        if isinstance(v, StarPack):
                            return [('ok', s2, (ak[0] + [v], ak[1]))]
                        raise Unsupported('*args of unknown arity')
                    return self.bind(self.ev(a.value, s), h)
                outs = self.bind(outs, g)
            else:
                outs = self.bind(outs, lambda s, ak, a=a: self.bind(self.ev(a, s), lambda s2, v: [('ok', s2, (ak[0] + [v], ak[1]))]))
        for kw in e.keywords:
            def g(s, ak, kw=kw):
                def h(s2, v):
                    d = dict(ak[1])
                    if kw.arg is None:
                        if isinstance(v, DictVal):
                            d.update(v.items)
                            if v.pack is not None:
                                d['**'] = v.pack
                        elif isinstance(v, KwPack):
                            d.update(v.known)
                            d['**'] = v
                        elif isinstance(v, Obj) and hasattr(v, 'as_kwpack'):
                            d['**'] = v.as_kwpack(self, s2)
                        else:
                            raise Unsupported('** of non-pack')
                    else:
                        d[kw.arg] = v
                    return [('ok', s2, (ak[0], d))]
                return self.bind(self.ev(kw.value, s), h)
            outs = self.bind(outs, g)
        return outs

    def call_value(self, st, target, args, kwargs, node):
        target = unbox_handle(self, target)
        if isinstance(target, BoundMethod):
            return target.obj.call(self, st, target.name, args, kwargs, node)
        if isinstance(target, SymMethod):
            return target.model.call(self, st, target.recv, target.name, args, kwargs, node)
        if isinstance(target, SeqMethod):
            return target.call(self, st, args, kwargs, node)
        if isinstance(target, Closure):
            if isinstance(target.node, ast.AsyncFunctionDef) and getattr(self.unit, 'coroutines_are_objects', False):
                # calling an `async def` only creates the coroutine: its body runs when awaited / when the loop runs it (the unit's models decide)
                return [('ok', st, CoroutineObj(target, list(args), dict(kwargs)))]
            return self.inline(st, target, args, kwargs, node)
        if isinstance(target, Callable_):
            return target.invoke(self, st, args, kwargs, node)
        if isinstance(target, ExcClass):
            return self.new_exception(st, target.name, args, kwargs, node)
        if isinstance(target, Obj) and hasattr(target, 'm___call__'):
            return target.call(self, st, '__call__', args, kwargs, node)
        raise Unsupported(f'call of {target!r} at line {node.lineno}: `{ast.unparse(node)[:70]}`')

    def new_exception(self, st, cls_name, args, kwargs, node):
        st = st.fork()
        e = fresh('exc_' + cls_name.replace('.', '_'))
        st.assume(V.ucls(e) == V.K[cls_name], *V.cls_facts(e))
        st.assume(eargs(e) == V.tup(V.seq_of([box(self, a) for a in args])))
        if cls_name == 'SystemExit':
            st.assume(ecode(e) == (box(self, args[0]) if args else NONE))
        return [('ok', st, e)]

    def inline(self, st, clo, args, kwargs, node):
        """Inline a nested def / lambda (closures of the function under verification)."""
        fn = clo.node
        sub = Exec(fn, self.unit, parent=self)
        s = st.fork()
        saved_env = s.env
        cells = dict(s.cells)
        cells.update({k: v for k, v in saved_env.items()})
        s.cells = cells
        s.env = {}
        a = fn.args
        params = [p.arg for p in a.posonlyargs + a.args]
        if len(args) > len(params) and a.vararg is None:
            raise Unsupported('too many positional args in inlined call')
        for p, v in zip(params, args):
            s.env[p] = v
        if a.vararg is not None:
            extra = list(args[len(params):])
            s.env[a.vararg.arg] = extra[0] if len(extra) == 1 and isinstance(extra[0], StarPack) else PyTuple(extra)
        kwargs = dict(kwargs)
        pack = kwargs.pop('**', None)
        for p in params[len(args):] + [k.arg for k in a.kwonlyargs]:
            if p in kwargs:
                s.env[p] = kwargs.pop(p)
        # defaults
        defaults = dict(zip(params[len(params) - len(a.defaults):], a.defaults))
        for k, d in zip(a.kwonlyargs, a.kw_defaults):
            if d is not None:
                defaults[k.arg] = d
        for p in params + [k.arg for k in a.kwonlyargs]:
            if p not in s.env:
                if p in defaults:
                    (k0, s0, v0), = self.ev(defaults[p], s)
                    s.env[p] = v0
                else:
                    raise Unsupported(f'missing argument {p} in inlined call')
        if a.kwarg is not None:
            s.env[a.kwarg.arg] = KwPack(pack.val if isinstance(pack, KwPack) else None, kwargs)
        elif kwargs or pack is not None:
            if pack is not None and not kwargs:
                pass    # an opaque pack handed to a function without **kwargs: assume empty (user precondition)
            else:
                raise Unsupported(f'unexpected kwargs {list(kwargs)} in inlined call')
        if isinstance(fn, ast.Lambda):
            outs = sub.ev(fn.body, s)
            res = []
            for k, s2, v in outs:
                s2 = s2.fork()
                s2.env = dict(saved_env)
                s2.cells = dict(st.cells)
                res.append((k, s2, v))
            return res
        if sub.is_generator:
            raise Unsupported('inlined generator')
        res = []
        for k, s2, v in sub.block(fn.body, s):
            s2 = s2.fork()
            # propagate writes to nonlocal/cell variables? (closures here only read) -> restore caller frame
            s2.env = dict(saved_env)
            s2.cells = dict(st.cells)
            if k == 'normal':
                res.append(('ok', s2, NONE))
            elif k == 'return':
                res.append(('ok', s2, v))
            elif k == 'raise':
                res.append(('raise', s2, v))
            else:
                raise Unsupported(f'outcome {k} escaping inlined function')
        return res

    # ================================================================ statements
    def block(self, stmts, st):
        outs = [('normal', st, None)]
        for s in stmts:
            nxt = []
            for k, cur, p in outs:
                if k != 'normal':
                    nxt.append((k, cur, p))
                else:
                    nxt.extend(self.stmt(s, cur))
            outs = nxt
            self.npaths = max(self.npaths, len(outs))
            if len(outs) > self.MAX_PATHS:
                raise PathLimit(f'more than {self.MAX_PATHS} paths')
        return outs

    def lift(self, outs):
        return [(('normal' if k == 'ok' else k), s, (None if k == 'ok' else v)) for k, s, v in outs]

    def stmt(self, n, st):
        if self.unit.is_ignored_stmt(n):
            self.note_ignored(n, f'statement `{ast.unparse(n)[:60]}` dropped by ignore pattern')
            return [('normal', st, None)]
        st = st.fork()
        st.trace.append(n.lineno)
        self.reached.add(n.lineno)
        m = getattr(self, 'st_' + type(n).__name__, None)
        if m is None:
            raise Unsupported(f'statement {type(n).__name__} at line {n.lineno}')
        return m(n, st)

    def st_Expr(self, n, st):
        if isinstance(n.value, ast.Constant):
            return [('normal', st, None)]       # docstring / ellipsis
        if isinstance(n.value, (ast.Yield, ast.YieldFrom)):
            return self.lift(self.ev(n.value, st))
        return self.lift(self.ev(n.value, st))

    def st_Pass(self, n, st):
        return [('normal', st, None)]

    def st_Break(self, n, st):
        return [('break', st, None)]

    def st_Continue(self, n, st):
        return [('continue', st, None)]

    def st_Global(self, n, st):
        raise Unsupported('global')

    def st_Nonlocal(self, n, st):
        return [('normal', st, None)]

    def st_Import(self, n, st):
        return [('normal', st, None)]

    st_ImportFrom = st_Import

    def st_Delete(self, n, st):
        # `del container[key]` on a modelled container is an effect; `del name` / anything else is refcycle clean-up (dropped, noted)
        if len(n.targets) == 1 and isinstance(n.targets[0], ast.Subscript):
            t = n.targets[0]

            def f(s, base):
                b = unbox_handle(self, base)
                if isinstance(b, Obj) and hasattr(b, 'delitem'):
                    return self.bind(self.ev(t.slice, s), lambda s2, idx: b.delitem(self, s2, idx, n))
                self.note_ignored(n, '`del` statement dropped (refcycle clean-up)')
                return [('ok', s, None)]
            return self.lift(self.bind(self.ev(t.value, st), f))
        if len(n.targets) == 1 and isinstance(n.targets[0], ast.Attribute):
            # `del obj.attr` on a modelled object removes the field (a later hasattr / getattr sees it gone)
            t = n.targets[0]

            def g(s, base):
                b = unbox_handle(self, base)
                if isinstance(b, Obj) and b.has(s, t.attr):
                    if getattr(b, 'immutable', False):
                        raise Unsupported(f'del of attribute `{t.attr}` of an object the contract declares immutable')
                    s = s.fork()
                    del s.heap[(b.oid, t.attr)]
                    return [('ok', s, None)]
                self.note_ignored(n, '`del` statement dropped (refcycle clean-up)')
                return [('ok', s, None)]
            return self.lift(self.bind(self.ev(t.value, st), g))
        self.note_ignored(n, '`del` statement dropped (refcycle clean-up)')
        return [('normal', st, None)]

    def st_Assert(self, n, st):
        def f(s, c):
            t = self.truth(s, c)
            mode = getattr(self.unit, 'assert_mode', 'assume')
            if mode == 'oblige':
                self.oblige(s, f'line {n.lineno}: assert {ast.unparse(n.test)[:50]}', t)
                return [('ok', s.fork().assume(t), None)]
            res = []
            s_ok = s.fork().assume(t)
            if self.feasible(s_ok):
                res.append(('ok', s_ok, None))
            if mode == 'raise':
                s_bad = s.fork().assume(z3.Not(t))
                if self.feasible(s_bad):
                    res.append(self.raise_new(s_bad, 'AssertionError'))
            return res
        return self.lift(self.bind(self.ev(n.test, st), f))

    def st_Return(self, n, st):
        if n.value is None:
            return [('return', st, NONE)]
        return [(('return' if k == 'ok' else k), s, v) for k, s, v in self.ev(n.value, st)]

    def st_Raise(self, n, st):
        if n.exc is None:
            cur = st.ghost.get('#handling')
            if not cur:
                raise Unsupported('bare raise outside handler')
            return [('raise', st, cur[-1])]

        def f(s, v):
            v = unbox_handle(self, v)
            if isinstance(v, ExcClass):
                (k, s2, ev_), = self.new_exception(s, v.name, [], {}, n)
                v = ev_
                s = s2
            if not (is_z3(v) and v.sort() == Val):
                raise Unsupported(f'raise of {v!r}')
            if n.cause is not None:
                def g(s2, c):
                    s2 = s2.fork()
                    if is_z3(c) and c.sort() == Val:
                        s2.assume(ecause(v) == c)
                    return [('raise', s2, v)]
                return self.bind(self.ev(n.cause, s), g)
            self.oblige(s, f'line {n.lineno}: raised object is an exception', V.isinst(v, 'BaseException'))
            return [('raise', s, v)]
        return self.bind(self.ev(n.exc, st), f)

    def st_Assign(self, n, st):
        def f(s, v):
            outs = [('ok', s, None)]
            for t in n.targets:
                outs = self.bind(outs, lambda s2, _, t=t: self.assign(t, v, s2))
            return outs
        return self.lift(self.bind(self.ev(n.value, st), f))

    def st_AnnAssign(self, n, st):
        if n.value is None:
            return [('normal', st, None)]
        return self.lift(self.bind(self.ev(n.value, st), lambda s, v: self.assign(n.target, v, s)))

    def st_AugAssign(self, n, st):
        load = ast.copy_location(_to_load(n.target), n.target)

        def f(s, cur):
            return self.bind(self.ev(n.value, s), lambda s2, v: self.bind(self.binop(s2, n.op, cur, v, n), lambda s3, r: self.assign(n.target, r, s3)))
        return self.lift(self.bind(self.ev(load, st), f))

    def assign(self, target, v, st):
        if isinstance(target, ast.Name):
            st = st.fork()
            if target.id in st.cells and target.id not in st.env and target.id in getattr(self, 'nonlocals', ()):
                st.cells[target.id] = v
            else:
                st.env[target.id] = v
            return [('ok', st, None)]
        if isinstance(target, (ast.Tuple, ast.List)):
            if any(isinstance(x, ast.Starred) for x in target.elts):
                # a, *rest, b = <tuple of known length>
                stars = [i for i, x in enumerate(target.elts) if isinstance(x, ast.Starred)]
                vv = unbox_handle(self, v)
                if len(stars) != 1 or not isinstance(vv, PyTuple):
                    raise Unsupported('starred assignment target')
                i, m, k = stars[0], len(target.elts), len(vv.items)
                if k < m - 1:
                    self.oblige(st, f'line {target.lineno}: unpack arity', False)
                    return []
                parts = list(vv.items[:i]) + [PyTuple(list(vv.items[i:k - (m - 1 - i)]))] + list(vv.items[k - (m - 1 - i):])
                tgts = [x.value if isinstance(x, ast.Starred) else x for x in target.elts]
                outs = [('ok', st, None)]
                for t, p_ in zip(tgts, parts):
                    outs = self.bind(outs, lambda s2, _, t=t, p_=p_: self.assign(t, p_, s2))
                return outs
            n = len(target.elts)
            v = unbox_handle(self, v)
            if isinstance(v, PyTuple):
                if len(v.items) != n:
                    self.oblige(st, f'line {target.lineno}: unpack arity', False)
                    return []
                parts = list(v.items)
            else:
                seq = as_seq(self, st, v, f'line {target.lineno}: unpack')
                self.oblige(st, f'line {target.lineno}: unpack arity {n}', z3.Length(seq) == n)
                st = st.fork().assume(z3.Length(seq) == n)
                parts = [seq[i] for i in range(n)]
            outs = [('ok', st, None)]
            for t, p in zip(target.elts, parts):
                outs = self.bind(outs, lambda s2, _, t=t, p=p: self.assign(t, p, s2))
            return outs
        if isinstance(target, ast.Attribute):
            def f(s, base):
                base = unbox_handle(self, base)
                if isinstance(base, Obj):
                    return base.setattr(self, s, target.attr, v, target)
                if is_z3(base) and base.sort() == Val:
                    model = self.sym_models.get(ast.unparse(target.value))
                    if model is not None:
                        return model.setattr(self, s, base, target.attr, v, target)
                    if target.attr == '__cause__':
                        s = s.fork()
                        if '#cause' in s.ghost:             # units that reason about __cause__ keep it as a mutable map
                            s.ghost['#cause'] = z3.Store(s.ghost['#cause'], base, box(self, v))
                        return [('ok', s, None)]
                    if target.attr in ('__traceback__', '__context__', '__suppress_context__', '__notes__'):
                        return [('ok', s.fork(), None)]
                raise Unsupported(f'attribute store on {base!r} (`{ast.unparse(target)}`)')
            return self.bind(self.ev(target.value, st), f)
        if isinstance(target, ast.Subscript):
            def f(s, base):
                return self.bind(self.ev(target.slice, s), lambda s2, idx: self.setitem(s2, target, base, idx, v))
            return self.bind(self.ev(target.value, st), f)
        raise Unsupported(f'assignment target {type(target).__name__}')

    def setitem(self, st, target, base, idx, v):
        base = unbox_handle(self, base)
        if isinstance(base, Obj) and hasattr(base, 'setitem'):
            return base.setitem(self, st, idx, v, target)
        if isinstance(base, DictVal) and z3.is_string_value(idx):
            # a dict literal created by the function itself (fresh, private): record the store (unit hook may inspect it)
            st = st.fork()
            st.ghost['stores'] = st.ghost.get('stores', ()) + ((base, idx.as_string(), v),)
            base.items[idx.as_string()] = v
            return [('ok', st, None)]
        if is_z3(base) and base.sort() == Val:
            model = self.sym_models.get(ast.unparse(target.value))
            if model is not None and hasattr(model, 'setitem'):
                return model.setitem(self, st, base, idx, v, target)
        if is_z3(base) and base.sort() == SeqV and isinstance(target.value, ast.Name):
            i = as_int(self, st, idx)
            n = z3.Length(base)
            self.oblige(st, f'line {target.lineno}: index in range', z3.And(i >= -n, i < n))
            i = z3.If(i < 0, n + i, i)
            new = z3.Concat(z3.SubSeq(base, 0, i), z3.Unit(box(self, v)), z3.SubSeq(base, i + 1, n - i - 1))
            st = st.fork()
            st.assume(i >= 0, i < n)
            st.env[target.value.id] = new
            hook = getattr(self.unit, 'on_seq_store', None)
            if hook:
                hook(self, st, base, i, box(self, v), new)
            return [('ok', st, None)]
        raise Unsupported(f'item store `{ast.unparse(target)}`')

    def st_If(self, n, st):
        def f(s, c):
            t = self.truth(s, c)
            res = []
            s1 = s.fork().assume(t)
            s2 = s.fork().assume(z3.Not(t))
            if self.feasible(s1):
                res.extend(self.block(n.body, s1))
            if self.feasible(s2):
                res.extend(self.block(n.orelse, s2))
            return res
        res = []
        for k, s, v in self.ev(n.test, st):
            if k != 'ok':
                res.append((k, s, v))
            else:
                res.extend(f(s, v))
        return res

    def st_FunctionDef(self, n, st):
        st.env[n.name] = Closure(n, self)
        return [('normal', st, None)]

    st_AsyncFunctionDef = st_FunctionDef

    def st_ClassDef(self, n, st):
        hook = getattr(self.unit, 'on_classdef', None)
        if hook:
            r = hook(self, st, n)
            if r is not None:
                return r
        # a local class: instances are opaque values; its methods are separate verification units
        st.env[n.name] = ClassCtor(n.name, local=True)
        return [('normal', st, None)]

    # -- try / with
    def exc_match(self, st, exc, type_node):
        """z3 Bool: exception value matches the handler's type expression."""
        if type_node is None:
            return z3.BoolVal(True)
        (k, s, t), = self.ev(type_node, st)
        t = unbox_handle(self, t)
        ts = t.items if isinstance(t, PyTuple) else [t]
        conds = []
        for c in ts:
            c = unbox_handle(self, c)
            if not isinstance(c, ExcClass):
                raise Unsupported(f'except clause type {c!r}')
            if not c.exact:
                raise Unsupported(f'except clause over `{c.written}`, a class outside the modelled exception tree')
            conds.append(V.isinst(exc, c.name))
        return z3.Or(conds) if len(conds) > 1 else conds[0]

    def st_Try(self, n, st):
        outs = []
        for k, s, p in self.block(n.body, st):
            if k == 'raise':
                rest = s
                for h in n.handlers:
                    cond = self.exc_match(rest, p, h.type)
                    s_c = rest.fork().assume(cond)
                    if self.feasible(s_c):
                        if h.name:
                            s_c.env[h.name] = p
                        s_c.ghost['#handling'] = s_c.ghost.get('#handling', ()) + (p,)
                        for k2, s2, p2 in self.block(h.body, s_c):
                            s2 = s2.fork()
                            s2.ghost['#handling'] = s2.ghost.get('#handling', (p,))[:-1]
                            outs.append((k2, s2, p2))
                    rest = rest.fork().assume(z3.Not(cond))
                    if not self.feasible(rest):
                        rest = None
                        break
                if rest is not None:
                    outs.append(('raise', rest, p))
            elif k == 'normal' and n.orelse:
                outs.extend(self.block(n.orelse, s))
            else:
                outs.append((k, s, p))
        if n.finalbody:
            fin = []
            for k, s, p in outs:
                for k2, s2, p2 in self.block(n.finalbody, s):
                    fin.append((k, s2, p) if k2 == 'normal' else (k2, s2, p2))
            outs = fin
        return outs

    def st_With(self, n, st):
        if len(n.items) != 1:
            # nest
            inner = ast.With(items=n.items[1:], body=n.body)
            ast.copy_location(inner, n)
            outer = ast.With(items=n.items[:1], body=[inner])
            ast.copy_location(outer, n)
            return self.st_With(outer, st)
        item = n.items[0]
        res = []
        for k, s, cm in self.ev(item.context_expr, st):
            if k != 'ok':
                res.append((k, s, cm))
                continue
            cm = unbox_handle(self, cm)
            if not (isinstance(cm, Obj) and hasattr(cm, 'cm_enter')):
                raise Unsupported(f'with over {cm!r}')
            for k1, s1, v1 in cm.cm_enter(self, s, n):
                if k1 != 'ok':
                    res.append((k1, s1, v1))
                    continue
                if item.optional_vars is not None:
                    (a, s1, b), = self.assign(item.optional_vars, v1, s1)
                for k2, s2, p2 in self.block(n.body, s1):
                    for k3, s3, p3 in cm.cm_exit(self, s2, n, (k2, p2)):
                        # cm_exit returns ('ok', st, swallow?) or raise
                        if k3 != 'ok':
                            res.append((k3, s3, p3))
                        elif k2 == 'raise' and p3 is True:
                            res.append(('normal', s3, None))
                        else:
                            res.append((k2, s3, p2))
        return res

    st_AsyncWith = st_With

    # -- loops
    def loop_spec(self, n):
        i = self.loop_index[id(n)]
        sp = self.unit.loops.get((self.fn.name if hasattr(self.fn, 'name') else '<lambda>', i))
        if sp is None:
            sp = self.unit.loops.get(i) if self.parent is None else None
        if sp is None:
            raise Unsupported(f'loop #{i} at line {n.lineno} of {getattr(self.fn, "name", "?")} has no invariant in the sidecar')
        return i, sp

    def assigned_names(self, body_nodes):
        out = set()
        for top in body_nodes:
            stack = [top]
            while stack:
                x = stack.pop()
                if isinstance(x, (ast.FunctionDef, ast.AsyncFunctionDef)):
                    out.add(x.name)
                    continue
                if isinstance(x, (ast.Lambda, ast.ClassDef)):
                    continue
                if isinstance(x, ast.Name) and isinstance(x.ctx, ast.Store):
                    out.add(x.id)
                if isinstance(x, ast.ExceptHandler) and x.name:
                    out.add(x.name)
                stack.extend(ast.iter_child_nodes(x))
        return out

    def mutated_names(self, body_nodes):
        """locals mutated in place: `name.method(...)` receivers and `name[...] = ...` targets."""
        out = set()
        for top in body_nodes:
            stack = [top]
            while stack:
                x = stack.pop()
                if isinstance(x, (ast.FunctionDef, ast.AsyncFunctionDef, ast.Lambda, ast.ClassDef)):
                    continue
                if isinstance(x, ast.Call) and isinstance(x.func, ast.Attribute) and isinstance(x.func.value, ast.Name):
                    out.add(x.func.value.id)
                if isinstance(x, ast.Subscript) and isinstance(x.ctx, (ast.Store, ast.Del)) and isinstance(x.value, ast.Name):
                    out.add(x.value.id)
                if isinstance(x, ast.Call):
                    # a by-value list passed to a function that may mutate it (e.g. random.shuffle(buffer))
                    for a in x.args:
                        if isinstance(a, ast.Name):
                            out.add(a.id)
                stack.extend(ast.iter_child_nodes(x))
        return out

    def havoc_for_loop(self, st, n, sp, body_nodes, first):
        """Loop cut: havoc everything the loop may modify.  `first` selects the first-iteration variant for
        locals assigned only inside the loop (they are UNBOUND then) vs an arbitrary older value later."""
        h = st.fork()
        names = self.assigned_names(body_nodes)
        for nm in sorted(names):
            cur = h.env.get(nm, UNBOUND)
            if nm in sp.keep:
                continue
            if cur is UNBOUND:
                if first:
                    h.env[nm] = UNBOUND
                else:
                    t = sp.local_types.get(nm)
                    h.env[nm] = fresh('stale_' + nm, t) if t is not False else UNBOUND
            elif is_z3(cur):
                h.env[nm] = fresh(nm, cur.sort())
            elif isinstance(cur, PyTuple):
                h.env[nm] = fresh(nm)
            else:
                # python-level handle rebound in the loop: allowed only if declared
                if nm in sp.local_types:
                    h.env[nm] = fresh(nm, sp.local_types[nm])
                else:
                    raise Unsupported(f'loop rebinding of model-level local `{nm}`')
        for nm in sorted(self.mutated_names(body_nodes) - names):
            cur = h.env.get(nm)
            if nm in sp.keep:
                continue
            if is_z3(cur) and cur.sort() == SeqV:
                h.env[nm] = fresh(nm, SeqV)       # list held by value and mutated in place inside the loop
        for g, v in list(h.ghost.items()):
            if g.startswith('#'):
                continue
            if g in sp.keep_ghost:
                continue
            if is_z3(v):
                h.ghost[g] = fresh(g, v.sort())
        for o in list(self.objs.values()):
            if isinstance(o, Obj) and o.oid not in sp.frozen and not getattr(o, 'immutable', False):
                o.havoc(self, h)
        return h

    def st_While(self, n, st):
        i, sp = self.loop_spec(n)
        outs = []
        tag = f'loop#{i} (line {n.lineno})'
        self.oblige(st, f'{tag}: invariant holds on entry', sp.inv(st, self))
        variants = (True, False) if sp.split_first else (None,)
        for first in variants:
            h = self.havoc_for_loop(st, n, sp, n.body + [n.test], bool(first))
            h.assume(sp.inv(h, self))
            if first is True and sp.first_cond is not None:
                h.assume(sp.first_cond(h, self))
            if first is False and sp.first_cond is not None:
                h.assume(z3.Not(sp.first_cond(h, self)))
            if not self.feasible(h):
                continue
            if sp.at_head:
                sp.at_head(h, self)
            for k, s, c in self.ev(n.test, h):
                if k != 'ok':
                    outs.append((k, s, c))
                    continue
                t = self.truth(s, c)
                s_in = s.fork().assume(t)
                s_out = s.fork().assume(z3.Not(t))
                if self.feasible(s_out):
                    if n.orelse:
                        outs.extend(self.block(n.orelse, s_out))
                    else:
                        outs.append(('normal', s_out, None))
                if self.feasible(s_in):
                    for k2, s2, p in self.block(n.body, s_in):
                        if k2 in ('normal', 'continue'):
                            self.oblige(s2, f'{tag}: invariant preserved', sp.inv(s2, self))
                            if getattr(sp, 'on_backedge', None):
                                sp.on_backedge(s2, self)
                        elif k2 == 'break':
                            outs.append(('normal', s2, None))
                        else:
                            outs.append((k2, s2, p))
        return outs

    def st_For(self, n, st):
        i, sp = self.loop_spec(n)
        tag = f'loop#{i} (line {n.lineno})'
        outs = []
        for k0, s0, it in self.ev(n.iter, st):
            if k0 != 'ok':
                outs.append((k0, s0, it))
                continue
            it = unbox_handle(self, it)
            if is_z3(it) and it.sort() in (SeqV, Val) or isinstance(it, PyTuple):
                seq = as_seq(self, s0, it)
                src = SeqIter(self, seq)
                s0 = s0.fork()
                src.init(s0)
            elif isinstance(it, Obj) and hasattr(it, 'iter_start'):
                (k1, s0, src), = it.iter_start(self, s0, n)
            elif isinstance(it, Obj) and hasattr(it, 'pull'):
                src = it
            else:
                raise Unsupported(f'for over {it!r} at line {n.lineno}')
            self.oblige(s0, f'{tag}: invariant holds on entry', sp.inv(s0, self))
            variants = (True, False) if sp.split_first else (None,)
            for first in variants:
                h = self.havoc_for_loop(s0, n, sp, n.body + [n.target], bool(first))
                if hasattr(src, 'havoc_index'):
                    src.havoc_index(h)
                h.assume(sp.inv(h, self))
                if first is True and sp.first_cond is not None:
                    h.assume(sp.first_cond(h, self))
                if first is False and sp.first_cond is not None:
                    h.assume(z3.Not(sp.first_cond(h, self)))
                if not self.feasible(h):
                    continue
                if sp.at_head:
                    sp.at_head(h, self)
                for kind, s1, x in src.pull(self, h, n):
                    if kind == 'stop':
                        if n.orelse:
                            outs.extend(self.block(n.orelse, s1))
                        else:
                            outs.append(('normal', s1, None))
                    elif kind == 'raise':
                        outs.append(('raise', s1, x))
                    else:
                        res = self.assign(n.target, x, s1)
                        for ka, sa, _ in res:
                            for k2, s2, p in self.block(n.body, sa):
                                if k2 in ('normal', 'continue'):
                                    self.oblige(s2, f'{tag}: invariant preserved', sp.inv(s2, self))
                                    if getattr(sp, 'on_backedge', None):
                                        sp.on_backedge(s2, self)
                                elif k2 == 'break':
                                    if hasattr(src, 'on_break'):
                                        s2 = src.on_break(self, s2)
                                    outs.append(('normal', s2, None))
                                else:
                                    if hasattr(src, 'on_break'):
                                        s2 = src.on_break(self, s2)
                                    outs.append((k2, s2, p))
        return outs

    st_AsyncFor = st_For

    # -- generators
    def do_yield(self, e, st):
        def f(s, v):
            s = s.fork()
            bv = box(self, v) if e.value is not None else NONE
            self.unit.on_yield(self, s, bv, e)
            res = [('ok', s, NONE)]
            if self.unit.consumer_may_stop:
                s2 = s.fork()
                ge = fresh('genexit')
                s2.assume(V.ucls(ge) == V.K['GeneratorExit'], *V.cls_facts(ge))
                res.append(('raise', s2, ge))
            return res
        if e.value is None:
            return f(st, NONE)
        return self.bind(self.ev(e.value, st), f)

    def ev_YieldFrom(self, e, st):
        def f(s, it):
            it = unbox_handle(self, it)
            if isinstance(it, Obj) and hasattr(it, 'yield_from'):
                return it.yield_from(self, s, e)
            if is_z3(it) or isinstance(it, PyTuple):
                seq = as_seq(self, s, it)
                return self.unit.on_yield_from_seq(self, s, seq, e)
            raise Unsupported(f'yield from {it!r}')
        return self.bind(self.ev(e.value, st), f)


def _to_load(t):
    t2 = ast.parse(ast.unparse(t), mode='eval').body
    return t2


# ------------------------------------------------------------------ small python-level containers
class DictVal:
    """A dict literal with constant string keys (used for kwargs dicts / `fut.data`)."""

    def __init__(self, items=None, pack=None):
        self.items = dict(items or {})
        self.pack = pack

    def with_item(self, k, v):
        return DictVal({**self.items, k: v}, self.pack)

    def with_pack(self, p):
        if isinstance(p, DictVal):
            return DictVal({**self.items, **p.items}, p.pack or self.pack)
        return DictVal(self.items, p)

    def call(self, ex, st, meth, args, kwargs, node):
        if meth == 'pop' and z3.is_string_value(args[0]):
            k = args[0].as_string()
            if k in self.items:
                raise Unsupported('dict.pop mutation on literal dict')
        if meth == 'values' and self.pack is None:
            return [('ok', st, PyTuple(list(self.items.values())))]
        raise Unsupported(f'dict.{meth}')


class SeqMethod:
    """list methods on a local list held by value (append/extend/pop...)."""

    def __init__(self, target_node, name, seq):
        self.target, self.name, self.seq = target_node, name, seq

    def call(self, ex, st, args, kwargs, node):
        if self.name == 'append':
            newv = z3.Concat(self.seq, z3.Unit(box(ex, args[0])))
            hook = getattr(ex.unit, 'on_seq_append', None)
            if hook:
                st = st.fork()
                hook(ex, st, self.seq, box(ex, args[0]), newv)
        elif self.name == 'extend':
            newv = z3.Concat(self.seq, as_seq(ex, st, args[0]))
        else:
            raise Unsupported(f'list.{self.name}')
        if isinstance(self.target, ast.Name):
            st = st.fork()
            st.env[self.target.id] = newv
            return [('ok', st, NONE)]
        if isinstance(self.target, ast.Attribute):
            # list held in an attribute of a modelled object (by value; aliasing of lists is outside the model)
            store = ast.Attribute(value=self.target.value, attr=self.target.attr, ctx=ast.Store())
            ast.copy_location(store, self.target)
            return [(k, s, NONE if k == 'ok' else v) for k, s, v in ex.assign(store, newv, st)]
        raise Unsupported(f'list method on `{ast.unparse(self.target)}`')


class SeqIter:
    """Iteration over a finite sequence value: index ghost, cut by the loop invariant."""

    def __init__(self, ex, seq):
        self.seq = seq
        self.key = f'#i{V.fresh_id()}'

    def init(self, st):
        st.ghost[self.key] = z3.IntVal(0)

    def havoc_index(self, st):
        i = fresh('idx', z3.IntSort())
        st.ghost[self.key] = i
        st.assume(i >= 0, i <= z3.Length(self.seq))

    def idx(self, st):
        return st.ghost[self.key]

    def pull(self, ex, st, node):
        i = st.ghost[self.key]
        s_stop = st.fork().assume(i == z3.Length(self.seq))
        s_item = st.fork().assume(i < z3.Length(self.seq))
        s_item.ghost[self.key] = i + 1
        outs = []
        if ex.feasible(s_stop):
            outs.append(('stop', s_stop, None))
        if ex.feasible(s_item):
            if self.seq.sort() == SeqV and not z3.is_int_value(i):
                # instance, at (this sequence, this index), of the lemma "prefix extension" proved on every run by unit AX:lemma(seq) (contracts/axioms.py):
                # s[:i+1] == s[:i] ++ [s[i]] for 0 <= i < len(s).  A theorem of the sequence theory, so it excludes no state; it is handed to the solver because
                # z3's sequence solver finds it by itself only erratically (0.1 s .. > 60 s on the identical query, by build, seed and load), and a loop invariant
                # over `for x in seq` that speaks of the prefix consumed so far needs exactly this step.  (i < len(s) is the path condition of this branch.)
                s_item.assume(z3.Implies(i >= 0, V.prefix_extension(self.seq, i)))
            outs.append(('item', s_item, self.seq[i]))
        return outs


class Awaitable_:
    def await_(self, ex, st, node):
        raise Unsupported('await')


# ------------------------------------------------------------------ builtins
def _b_len(ex, e, st):
    def f(s, v):
        v = unbox_handle(ex, v)
        if isinstance(v, PyTuple):
            return [('ok', s, z3.IntVal(len(v.items)))]
        if isinstance(v, Obj) and hasattr(v, 'length'):
            return v.length(ex, s, e)
        if is_z3(v) and v.sort() == Val:
            model = ex.sym_models.get(ast.unparse(e.args[0]))
            if model is not None and hasattr(model, 'length'):
                return model.length(ex, s, v, e)
        return [('ok', s, z3.Length(as_seq(ex, s, v, f'line {e.lineno}: len()')))]
    return ex.bind(ex.ev(e.args[0], st), f)


def _b_isinstance(ex, e, st):
    def f(s, v):
        def g(s2, t):
            t = unbox_handle(ex, t)
            ts = t.items if isinstance(t, PyTuple) else [t]
            conds = []
            for c in ts:
                c = unbox_handle(ex, c)
                if isinstance(c, ExcClass):
                    name = c.name
                elif isinstance(c, TypeName):
                    name = c.name
                elif is_z3(c) and c.sort() == Val:
                    # class (or tuple of classes) only known at run time: uninterpreted, but a pure function of (value, classes)
                    conds.append(dyn_isinst(box(ex, v), c))
                    continue
                else:
                    raise Unsupported(f'isinstance against {c!r}')
                conds.append(ex.isinstance_of(s2, v, name))
            return [('ok', s2, z3.Or(conds) if len(conds) > 1 else conds[0])]
        return ex.bind(ex.ev(e.args[1], s), g)
    return ex.bind(ex.ev(e.args[0], st), f)


def _isinstance_of(self, st, v, name):
    v = unbox_handle(self, v)
    if isinstance(v, PyTuple):
        return z3.BoolVal('tuple' in V.descendants(name) or name == 'object')
    if isinstance(v, Obj):
        return z3.BoolVal(v.cls_name in V.descendants(name))
    if is_z3(v):
        s = v.sort()
        if s == Val:
            st.assume(*V.cls_facts(v))
            return V.isinst(v, name)
        native = {z3.IntSort(): 'int', z3.BoolSort(): 'bool', z3.RealSort(): 'float', z3.StringSort(): 'str', SeqV: 'list'}[s]
        return z3.BoolVal(native in V.descendants(name))
    return z3.BoolVal(False)


Exec.isinstance_of = _isinstance_of


dyn_isinst = z3.Function('isinstance_dyn', Val, Val, z3.BoolSort())
etb = z3.Function('e_traceback', Val, Val)


class TypeName:
    def __init__(self, name):
        self.name = name


def _b_max(ex, e, st, is_max=True):
    if len(e.args) != 2:
        raise Unsupported('max/min arity')

    def f(s, a):
        def g(s2, b):
            x, y = as_num(ex, s2, a), as_num(ex, s2, b)
            if x.sort() != y.sort():
                x = z3.ToReal(x) if x.sort() == z3.IntSort() else x
                y = z3.ToReal(y) if y.sort() == z3.IntSort() else y
            return [('ok', s2, z3.If(x >= y, x, y) if is_max else z3.If(x <= y, x, y))]
        return ex.bind(ex.ev(e.args[1], s), g)
    return ex.bind(ex.ev(e.args[0], st), f)


def _b_next(ex, e, st, stop_cls='StopIteration'):
    def f(s, it):
        it = unbox_handle(ex, it)
        if not (isinstance(it, Obj) and hasattr(it, 'pull')):
            raise Unsupported(f'next() on {it!r}')
        res = []
        for kind, s1, x in it.pull(ex, s, e):
            if kind == 'stop':
                if len(e.args) == 2:
                    res.extend(ex.ev(e.args[1], s1))
                else:
                    res.append(ex.raise_new(s1, stop_cls))
            elif kind == 'raise':
                res.append(('raise', s1, x))
            else:
                res.append(('ok', s1, x))
        return res
    return ex.bind(ex.ev(e.args[0], st), f)


def _b_anext(ex, e, st):
    """`anext(ait[, default])`: the awaitable's outcome is produced at the call (the engine's `await` of a plain value is the value), which is
    equivalent for the only supported use, a directly awaited `await anext(...)`; exhaustion is StopAsyncIteration."""
    return _b_next(ex, e, st, 'StopAsyncIteration')


def _b_list(ex, e, st):
    if not e.args:
        return [('ok', st, V.EMPTY)]

    def f(s, v):
        v = unbox_handle(ex, v)
        if isinstance(v, Obj) and hasattr(v, 'to_list'):
            return v.to_list(ex, s, e)
        return [('ok', s, as_seq(ex, s, v))]
    return ex.bind(ex.ev(e.args[0], st), f)


def _b_getattr(ex, e, st):
    if not isinstance(e.args[1], ast.Constant):
        raise Unsupported('getattr with dynamic name')
    name = e.args[1].value

    def f(s, base):
        base = unbox_handle(ex, base)
        if isinstance(base, Obj) and len(e.args) == 3 and not base.has(s, name) and not hasattr(base, 'm_' + name) and not hasattr(base, 'a_' + name) and name not in getattr(base, 'volatile', ()):
            return ex.ev(e.args[2], s)
        return ex.getattr(s, base, name, e)
    return ex.bind(ex.ev(e.args[0], st), f)


def _b_print(ex, e, st):
    # the output is dropped, but building it is not: f-string arguments are evaluated (a call, or a user __str__, inside them may raise), and so are calls in other arguments
    ex.note_ignored(e, 'print(...) output dropped')
    todo = []
    for a in list(e.args):
        if isinstance(a, ast.JoinedStr):
            todo.append(a)
        else:
            todo += ex.effectful_calls(a)
    return ex.eval_for_effects(todo, st, lambda s: [('ok', s, NONE)])


def _b_type(ex, e, st):
    raise Unsupported('type()')


def _b_int(ex, e, st):
    return ex.bind(ex.ev(e.args[0], st), lambda s, v: [('ok', s, as_int(ex, s, v))])


def _b_id(ex, e, st):
    def f(s, v):
        return [('ok', s, z3.Function('py_id', Val, z3.IntSort())(box(ex, v)))]
    return ex.bind(ex.ev(e.args[0], st), f)


def _b_zip(ex, e, st):
    if len(e.args) != 2:
        raise Unsupported('zip arity')

    def f(s, a):
        def g(s2, b):
            return [('ok', s2, ZipVal(as_seq(ex, s2, a), as_seq(ex, s2, b)))]
        return ex.bind(ex.ev(e.args[1], s), g)
    return ex.bind(ex.ev(e.args[0], st), f)


class ZipVal(Obj):
    """zip(a, b) over two sequences, iterable once in a for loop."""

    def __init__(self, a, b):
        self.a, self.b = a, b
        self.oid = -1
        self.key = f'#zip{V.fresh_id()}'

    def iter_start(self, ex, st, node):
        st = st.fork()
        st.ghost[self.key] = z3.IntVal(0)
        return [('ok', st, self)]

    def havoc(self, ex, st):
        pass

    def havoc_index(self, st):
        i = fresh('zidx', z3.IntSort())
        n = z3.If(z3.Length(self.a) <= z3.Length(self.b), z3.Length(self.a), z3.Length(self.b))
        st.ghost[self.key] = i
        st.assume(i >= 0, i <= n)

    def idx(self, st):
        return st.ghost[self.key]

    def pull(self, ex, st, node):
        if self.key not in st.ghost:
            st.ghost[self.key] = z3.IntVal(0)
        i = st.ghost[self.key]
        n = z3.If(z3.Length(self.a) <= z3.Length(self.b), z3.Length(self.a), z3.Length(self.b))
        s_stop = st.fork().assume(i >= n)
        s_item = st.fork().assume(i < n)
        s_item.ghost[self.key] = i + 1
        outs = []
        if ex.feasible(s_stop):
            outs.append(('stop', s_stop, None))
        if ex.feasible(s_item):
            outs.append(('item', s_item, PyTuple([self.a[i], self.b[i]])))
        return outs


def _b_enumerate(ex, e, st):
    def f(s, v):
        v = unbox_handle(ex, v)
        if isinstance(v, Obj) and hasattr(v, 'enumerate'):
            return v.enumerate(ex, s, e)
        raise Unsupported('enumerate over ' + repr(v))
    return ex.bind(ex.ev(e.args[0], st), f)


def _b_reversed(ex, e, st):
    def f(s, v):
        v = unbox_handle(ex, v)
        if isinstance(v, Obj) and hasattr(v, 'reversed_obj'):
            return v.reversed_obj(ex, s, e)
        raise Unsupported('reversed over ' + repr(v))
    return ex.bind(ex.ev(e.args[0], st), f)


def _b_range(ex, e, st):
    if len(e.args) != 1:
        raise Unsupported('range arity')
    return ex.bind(ex.ev(e.args[0], st), lambda s, n: [('ok', s, RangeIter(as_int(ex, s, n)))])


class RangeIter(Obj):
    """range(n) iterated by a for loop: index ghost, cut by the loop invariant"""

    def __init__(self, n):
        self.n = n
        self.oid = -7
        self.key = f'#r{V.fresh_id()}'

    def havoc(self, ex, st):
        pass

    def iter_start(self, ex, st, node):
        st = st.fork()
        st.ghost[self.key] = z3.IntVal(0)
        return [('ok', st, self)]

    def havoc_index(self, st):
        i = fresh('ridx', z3.IntSort())
        st.ghost[self.key] = i
        st.assume(i >= 0, z3.Or(i <= self.n, i == 0))

    def idx(self, st):
        return st.ghost[self.key]

    def pull(self, ex, st, node):
        i = st.ghost[self.key]
        s1 = st.fork().assume(i >= self.n)
        s2 = st.fork().assume(i < self.n)
        s2.ghost[self.key] = i + 1
        outs = []
        if ex.feasible(s1):
            outs.append(('stop', s1, None))
        if ex.feasible(s2):
            outs.append(('item', s2, i))
        return outs


def _b_iter(ex, e, st):
    def f(s, v):
        v = unbox_handle(ex, v)
        if isinstance(v, Obj) and hasattr(v, 'iter_start'):
            return v.iter_start(ex, s, e)
        if isinstance(v, Obj) and hasattr(v, 'pull'):
            return [('ok', s, v)]
        if is_z3(v) and v.sort() == SeqV:
            it = SeqIter(ex, v)
            s = s.fork()
            it.init(s)
            return [('ok', s, it)]
        raise Unsupported(f'iter() on {v!r}')
    if len(e.args) != 1:
        raise Unsupported('iter(callable, sentinel)')
    return ex.bind(ex.ev(e.args[0], st), f)


BUILTINS = {
    'iter': _b_iter, 'aiter': _b_iter, 'anext': _b_anext,
    'len': _b_len, 'isinstance': _b_isinstance, 'max': _b_max, 'min': lambda ex, e, st: _b_max(ex, e, st, False),
    'next': _b_next, 'list': _b_list, 'getattr': _b_getattr, 'print': _b_print, 'int': _b_int, 'id': _b_id, 'zip': _b_zip,
    'enumerate': _b_enumerate, 'range': _b_range, 'reversed': _b_reversed,
}
