"""python3-vt -m pyvc.replay <replay.json>: print the failed obligation and re-run its scenario on the real code (if any)."""
import json
import subprocess
import sys


def main():
    rec = json.load(open(sys.argv[1]))
    print('property  :', rec.get('property'))
    print('obligation:', rec.get('obligation'))
    print('path lines:', rec.get('trace_lines'))
    print('model     :', json.dumps(rec.get('model'))[:1000])
    sc = rec.get('scenario')
    if sc:
        print('re-running scenario on the real code:', ' '.join(sc))
        p = subprocess.run(sc, capture_output=True, text=True, timeout=300)
        print(p.stdout[-3000:])
        print(p.stderr[-3000:])
        sys.exit(1 if p.returncode != 0 else 0)
    print('reproduced_on_real_code:', rec.get('reproduced_on_real_code'))
    sys.exit(1)


if __name__ == '__main__':
    main()
