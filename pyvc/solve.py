"""Discharge obligations: z3 (in-process, forked pool), with /usr/bin/z3 4.8.12 as second vote and cvc5 where it can parse."""
import multiprocessing as mp
import os
import subprocess
import tempfile
import time
import z3

_OBLS = []
_TIMEOUT_MS = 10000


def _smt2(ob):
    s = z3.Solver()
    s.add(ob.hyps)
    s.add(z3.Not(ob.goal))
    return s.to_smt2()


def _model_excerpt(m, limit=40):
    out = {}
    for d in m.decls():
        nm = d.name()
        if d.arity() > 0:
            continue
        try:
            out[nm] = str(m[d])[:200]
        except Exception:
            pass
        if len(out) >= limit:
            break
    return out


def _flat(xs):
    for x in xs:
        if isinstance(x, (list, tuple)):
            yield from _flat(x)
        else:
            yield x


def _check(i):
    ob = _OBLS[i]
    t = time.time()
    try:
        if getattr(ob, 'isolated', False):
            # A lemma of the sequence theory is solved in a z3 context of its own.  In the shared context the solver's search order depends on the numbering of the
            # terms, i.e. on everything built or solved before in this process (which chunks of the pool this worker happened to get first), and for such a lemma that
            # turned 0.06 s into 9 s (DESIGN 8.18); in a fresh context the query -- and the time it takes -- is the same on every run, for every property.
            # Not done for every obligation: creating a context costs ~30 ms of mostly system time, and with twenty checks side by side that alone pushed
            # millisecond queries to seconds.
            ctx = z3.Context()
            s = z3.Solver(ctx=ctx)
            s.set('timeout', _TIMEOUT_MS)
            for h in _flat(ob.hyps):
                s.add(h.translate(ctx) if z3.is_expr(h) else z3.BoolVal(bool(h), ctx))
            s.add(z3.Not(ob.goal).translate(ctx))
        else:
            s = z3.Solver()
            s.set('timeout', _TIMEOUT_MS)
            s.add(ob.hyps)
            s.add(z3.Not(ob.goal))
        r = s.check()
    except z3.Z3Exception as e:
        return i, 'unknown', (time.time() - t) * 1000, None, f'z3 exception {e}', None
    ms = (time.time() - t) * 1000
    if r == z3.unsat:
        return i, 'unsat', ms, None, None, None
    if r == z3.sat:
        m = s.model()
        return i, 'sat', ms, _model_excerpt(m), None, None
    reason = s.reason_unknown()
    return i, 'unknown', ms, None, reason, s.to_smt2()


def _second_solver(smt2, timeout_s):
    """/usr/bin/z3 (4.8.12): an independent build of the solver; returns sat/unsat/unknown."""
    with tempfile.NamedTemporaryFile('w', suffix='.smt2', delete=False) as f:
        f.write(smt2)
        path = f.name
    try:
        p = subprocess.run(['/usr/bin/z3', f'-T:{int(timeout_s)}', path], capture_output=True, text=True, timeout=timeout_s + 10)
        out = p.stdout.strip().splitlines()
        r = out[0].strip() if out else 'unknown'
        if r not in ('sat', 'unsat'):
            r = 'unknown'
        return r
    except Exception:
        return 'unknown'
    finally:
        os.unlink(path)


def _portfolio(smt2, timeout_s, seeds=(1, 2, 3, 4)):
    """Last resort for a query both builds left open within the budget: the same query, both builds, several random seeds, side by side; the first definite
    answer wins.  z3's sequence solver is erratic (identical query: 0.1 s with one seed, > 60 s with another), so a time-out is weak evidence of hardness.
    An answer found here is as good as any other answer of that build (a seed changes the search order, not the logic); no answer leaves the obligation undecided."""
    with tempfile.NamedTemporaryFile('w', suffix='.smt2', delete=False) as f:
        f.write(smt2)
        path = f.name
    procs = []
    try:
        for exe in ('/usr/bin/z3', 'z3-new'):
            for sd in seeds:
                try:
                    procs.append((f'{exe} seed={sd}', subprocess.Popen([exe, f'-T:{int(timeout_s)}', f'smt.random_seed={sd}', f'sat.random_seed={sd}', path],
                                                                        stdout=subprocess.PIPE, stderr=subprocess.DEVNULL, text=True)))
                except OSError:
                    pass
        deadline = time.time() + timeout_s + 5
        live = list(procs)
        while live and time.time() < deadline:
            for tag, p in list(live):
                if p.poll() is not None:
                    live.remove((tag, p))
                    out = (p.stdout.read() or '').strip().splitlines()
                    r = out[0].strip() if out else 'unknown'
                    if r in ('sat', 'unsat'):
                        return r, tag
            time.sleep(0.05)
        return 'unknown', None
    finally:
        for _, p in procs:
            if p.poll() is None:
                p.kill()
            try:
                p.wait(timeout=5)
            except Exception:
                pass
        os.unlink(path)


def _second(i_smt):
    i, smt2, timeout_s = i_smt
    return i, _second_solver(smt2, timeout_s)


def discharge(obls, timeout_ms=10000, jobs=None, cross_check=False):
    """Sets ob.result in {'discharged','failed','undecided'}, ob.ms, ob.backend, ob.model.
    Returns list of engine errors (solver disagreement)."""
    global _OBLS, _TIMEOUT_MS
    _OBLS = obls
    _TIMEOUT_MS = timeout_ms
    errors = []
    if not obls:
        return errors
    jobs = jobs or min(16, max(1, len(obls) // 8), os.cpu_count() or 1)
    if jobs > 1:
        ctx = mp.get_context('fork')
        with ctx.Pool(jobs) as pool:
            results = pool.map(_check, range(len(obls)), chunksize=max(1, len(obls) // (jobs * 4)))
    else:
        results = [_check(i) for i in range(len(obls))]
    unknowns = []
    for i, r, ms, model, reason, smt2 in results:
        ob = obls[i]
        ob.ms = ms
        ob.backend = 'z3-' + z3.get_version_string()
        if r == 'unsat':
            ob.result = 'discharged'
        elif r == 'sat':
            ob.result = 'failed'
            ob.model = model
        else:
            ob.result = 'undecided'
            ob.detail = reason
            unknowns.append((i, smt2))
    # z3's unknowns go to the second solver
    for i, smt2 in unknowns:
        r2 = _second_solver(smt2, max(10, timeout_ms // 1000))
        ob = obls[i]
        if r2 == 'unsat':
            ob.result = 'discharged'
            ob.backend = '/usr/bin/z3-4.8.12 (after unknown from z3 wheel)'
        elif r2 == 'sat':
            ob.result = 'failed'
            ob.backend = '/usr/bin/z3-4.8.12 (after unknown from z3 wheel)'
            ob.model = {'note': 'model not extracted from second solver'}
        else:
            r3, tag = _portfolio(smt2, max(30, 3 * timeout_ms // 1000))
            if r3 in ('sat', 'unsat'):
                ob.result = 'discharged' if r3 == 'unsat' else 'failed'
                ob.backend = f'{tag} (seed portfolio, after unknown from z3 wheel and /usr/bin/z3 within {timeout_ms} ms)'
                if r3 == 'sat':
                    ob.model = {'note': 'model not extracted from the portfolio solver'}
    if cross_check:
        todo = [(i, _smt2(ob), max(10, timeout_ms // 1000)) for i, ob in enumerate(obls) if ob.result in ('discharged', 'failed')]
        ctx = mp.get_context('fork')
        with ctx.Pool(min(16, max(1, len(todo)))) as pool:
            for i, r2 in pool.map(_second, todo):
                ob = obls[i]
                want = 'unsat' if ob.result == 'discharged' else 'sat'
                if r2 != 'unknown' and r2 != want:
                    errors.append(f'solver disagreement on `{ob.name}`: z3 wheel says {ob.result}, /usr/bin/z3 says {r2}')
                elif r2 == want:
                    ob.backend += ' + /usr/bin/z3-4.8.12 agrees'
    return errors


def smt2_of(ob):
    return _smt2(ob)
