"""Verification units: one real function of /repo + its sidecar contract."""
import ast
import fnmatch
import hashlib
import os
import re
import z3

from . import vals as V
from .vals import SeqV, Val, NONE, fresh
from .core import Exec, St, Unsupported, PathLimit, Obligation

REPO_SRC = os.environ.get('PYVC_REPO_SRC', '/repo/src/mpservice')

DEFAULT_IGNORED_CALLS = ('logger.*', 'util.debug', 'util.info', 'traceback.print_exc', 'warnings.warn')


class LoopSpec:
    def __init__(self, inv, keep=(), keep_ghost=(), frozen=(), local_types=None, split_first=False,
                 first_cond=None, at_head=None, variant=None):
        self.inv = inv                      # (st, ex) -> z3 Bool
        self.keep = set(keep)               # locals NOT havocked although assigned in the body
        self.keep_ghost = set(keep_ghost)   # ghosts NOT havocked
        self.frozen = set(frozen)           # oids of model objects not havocked
        self.local_types = dict(local_types or {})   # sort of a loop-assigned local when it holds a stale value
        self.split_first = split_first      # explore "first iteration" (loop-assigned locals unbound) separately
        self.first_cond = first_cond        # (st, ex) -> Bool: characterises the first iteration
        self.at_head = at_head
        self.variant = variant


def load_source(relpath, override=None):
    if override is not None and relpath in override:
        return override[relpath]
    with open(os.path.join(REPO_SRC, relpath)) as f:
        return f.read()


def find_function(tree, qual):
    node = tree
    for part in qual.split('.'):
        if part == '<locals>':
            continue
        found = None
        for x in ast.walk(node):
            if x is node:
                continue
            if isinstance(x, (ast.FunctionDef, ast.AsyncFunctionDef, ast.ClassDef)) and x.name == part:
                found = x
                break
        if found is None:
            raise KeyError(qual)
        node = found
    return node


def strip_docstring(fn):
    if fn.body and isinstance(fn.body[0], ast.Expr) and isinstance(fn.body[0].value, ast.Constant) and isinstance(fn.body[0].value.value, str):
        return fn.body[1:]
    return fn.body


class Unit:
    """Base class for sidecar contracts.  Subclasses set: prop, file, qual and override setup/post etc."""
    prop = None
    file = None
    qual = None
    loops = {}
    ignore_calls = ()
    ignore_stmts = ()           # regexes on ast.unparse(stmt)
    consumer_may_stop = False   # explore GeneratorExit at every yield
    assert_mode = 'assume'      # `assert` statements: 'assume' (precondition), 'oblige', or 'raise'
    canaries = ()               # (label, old_text, new_text, substring of an obligation expected to fail)
    trusted = ()                # names of trusted models this unit relies on (collected automatically too)
    assumed_contracts = ()      # contracts of repo functions used but proved by another unit: (callee, unit name)
    class_aliases = None
    notes = ''

    def __init__(self):
        self.name = f'{self.prop}:{self.qual}' + (f'[{self.variant}]' if getattr(self, 'variant', None) else '')

    # -- ignore patterns
    def is_ignored_call(self, src, local_root=False):
        # the default patterns name module-level objects (`logger`, `util`, ...): a local variable of that name is not ignored
        pats = tuple(self.ignore_calls) if local_root else DEFAULT_IGNORED_CALLS + tuple(self.ignore_calls)
        for pat in pats:
            if fnmatch.fnmatchcase(src, pat):
                return True
        return False

    def is_ignored_stmt(self, n):
        if not self.ignore_stmts:
            return False
        src = ast.unparse(n)
        return any(re.fullmatch(p, src, re.S) for p in self.ignore_stmts)

    def resolve_method(self, name):
        """(FunctionDef, is_static) of method `name` of the class this unit's function belongs to, from the current source; None if there is none"""
        cls_name = self.qual.split('.')[0]
        try:
            tree = ast.parse(load_source(self.file, getattr(self, '_override', None)))
        except (SyntaxError, FileNotFoundError):
            return None
        for x in ast.walk(tree):
            if isinstance(x, ast.ClassDef) and x.name == cls_name:
                for y in x.body:
                    if isinstance(y, (ast.FunctionDef, ast.AsyncFunctionDef)) and y.name == name:
                        decos = {ast.unparse(d) for d in y.decorator_list}
                        if decos - {'staticmethod'}:
                            return None
                        return y, 'staticmethod' in decos
        return None

    def resolve_module_function(self, name):
        """FunctionDef of the module-level (undecorated, non-generator) function `name` of this unit's file, from the current source; None if there is none"""
        try:
            tree = ast.parse(load_source(self.file, getattr(self, '_override', None)))
        except (SyntaxError, FileNotFoundError):
            return None
        for y in tree.body:
            if isinstance(y, ast.FunctionDef) and y.name == name and not y.decorator_list and not any(isinstance(z, (ast.Yield, ast.YieldFrom)) for z in ast.walk(y)):
                return y
        return None

    # -- hooks with defaults
    def setup(self, ex):
        raise NotImplementedError

    def on_yield(self, ex, st, val, node):
        st.ghost['out'] = z3.Concat(st.ghost['out'], z3.Unit(val))
        self.after_yield(ex, st, val, node)

    def after_yield(self, ex, st, val, node):
        pass

    def on_yield_from_seq(self, ex, st, seq, node):
        st = st.fork()
        st.ghost['out'] = z3.Concat(st.ghost['out'], seq)
        self.after_yield(ex, st, None, node)
        res = [('ok', st, NONE)]
        if self.consumer_may_stop:
            # the consumer may stop after any prefix
            s2 = st.fork()
            k = fresh('k', z3.IntSort())
            full = s2.ghost['out']
            s2.assume(k >= 0, k <= z3.Length(seq))
            s2.ghost['out'] = z3.SubSeq(full, 0, z3.Length(full) - z3.Length(seq) + k)
            ge = fresh('genexit')
            s2.assume(V.ucls(ge) == V.K['GeneratorExit'], *V.cls_facts(ge))
            res.append(('raise', s2, ge))
        return res

    def post(self, ex, outcomes):
        pass

    # -- running
    def load(self, override=None):
        src = load_source(self.file, override)
        tree = ast.parse(src)
        fn = find_function(tree, self.qual)
        seg = ast.get_source_segment(src, fn) or ''
        return fn, hashlib.sha256(seg.encode()).hexdigest(), seg

    def run(self, override=None):
        """Returns dict(status, obligations, covers, ignored, sha, error)."""
        res = {'unit': self.name, 'status': 'ok', 'obligations': [], 'covers': {}, 'ignored': [], 'sha': None,
               'error': None, 'paths': 0, 'lineno': None, 'unreached': []}
        self._override = override
        try:
            fn, sha, seg = self.load(override)
        except (KeyError, SyntaxError, FileNotFoundError) as e:
            res['status'] = 'undecided'
            res['error'] = f'cannot extract {self.file}::{self.qual}: {e!r}'
            return res
        res['sha'] = sha
        res['lineno'] = fn.lineno
        ex = Exec(fn, self)
        self.ex = ex
        try:
            st = self.setup(ex)
            body = strip_docstring(fn)
            outs = ex.block(body, st)
            res['paths'] = len(outs)
            self.post(ex, outs)
            self.exit_covers(ex, outs)
        except (Unsupported, PathLimit) as e:
            res['status'] = 'undecided'
            res['error'] = f'{type(e).__name__}: {e}'
        except (KeyError, AttributeError, z3.Z3Exception, AssertionError, TypeError, IndexError) as e:
            # contract binding error (e.g. invariant names a local that no longer exists): undecided, not a violation
            import traceback
            res['status'] = 'undecided'
            res['error'] = f'contract binding error {type(e).__name__}: {e} @ {traceback.format_exc().splitlines()[-3].strip()}'
        res['obligations'] = ex.obls
        res['covers'] = ex.covers
        # statement coverage (vacuity guard): every statement of the function must lie on some feasible path
        if res['status'] == 'ok':
            want = set()
            stack = list(strip_docstring(fn))
            while stack:
                x = stack.pop()
                if isinstance(x, ast.stmt):
                    if self.is_ignored_stmt(x):
                        continue
                    if not (isinstance(x, ast.Expr) and isinstance(x.value, ast.Constant)):
                        want.add(x.lineno)
                    if isinstance(x, (ast.FunctionDef, ast.AsyncFunctionDef, ast.ClassDef)):
                        # body of a nested def/class: only counted when it is executed by inlining
                        if x.name not in self.inlined_defs:
                            continue
                if isinstance(x, ast.Lambda):
                    continue
                stack.extend(ast.iter_child_nodes(x))
            res['want_lines'] = sorted(want - self.unreachable_ok_lines(fn))
            res['stale_unreachable_ok'] = list(self.stale_unreachable_ok)
            res['reached_lines'] = sorted(ex.reached)
        res['ignored'] = sorted(set(ex.ignored))
        return res

    expected_exits = ()     # exit kinds that must be reachable (vacuity guard), e.g. ('normal', 'raise')
    inlined_defs = ()       # names of nested defs whose bodies are executed by inlining (counted in statement coverage)
    unreachable_ok = ()     # source-text fragments of statements that are legitimately unreachable under the precondition

    def unreachable_ok_lines(self, fn):
        out = set()
        self.stale_unreachable_ok = []
        if not self.unreachable_ok:
            return out
        hit = set()
        for x in ast.walk(fn):
            if isinstance(x, ast.stmt):
                src = ast.unparse(x)
                for frag in self.unreachable_ok:
                    if src.startswith(frag):
                        hit.add(frag)
                        for y in ast.walk(x):
                            if isinstance(y, ast.stmt):
                                out.add(y.lineno)
        # fragments that match no statement of the CURRENT text: the declaration was written against another shape of the function
        # (e.g. a local was renamed); uncovered statements are then a binding problem of the contract, not dead code
        self.stale_unreachable_ok = [f for f in self.unreachable_ok if f not in hit]
        return out

    def exit_covers(self, ex, outs):
        for k, s, p in outs:
            kind = 'normal' if k in ('normal', 'return') else k
            ex.cover(f'exit:{kind}', s)


def seq_len(s):
    return z3.Length(s)


class LemmaUnit(Unit):
    """Obligations that do not come from a function body: lemmas about spec functions (proved by explicit
    induction, base + step as QF queries) and top-level property lemmas over component contracts."""
    file = '(lemma)'
    qual = 'lemma'
    isolated = False

    def lemmas(self):
        """yield (name, hyps, goal)"""
        return []

    def run(self, override=None):
        res = {'unit': self.name, 'status': 'ok', 'obligations': [], 'covers': {}, 'ignored': [], 'sha': None,
               'error': None, 'paths': 0, 'lineno': None}
        self.ex = None
        try:
            for name, hyps, goal in self.lemmas():
                ob = Obligation(f'{self.qual}: {name}', list(hyps), goal, [], 'assert')
                ob.unit = self.name
                ob.isolated = bool(getattr(self, 'isolated', False))      # solve.py: solved in a z3 context of its own (history-independent search)
                res['obligations'].append(ob)
                res['covers'].setdefault(f'{self.qual}: hyps of {name}', []).append(list(hyps))
        except (KeyError, AttributeError, z3.Z3Exception, AssertionError, TypeError) as e:
            res['status'] = 'undecided'
            res['error'] = f'lemma construction error {type(e).__name__}: {e}'
        return res
