"""CLI: python3-vt -m pyvc.check <PROPERTY_ID> [--tier quick|thorough]

Exit codes: 0 all obligations discharged (known findings printed), 1 violation (VIOLATION line per failed
obligation), 2 undecided only, 3 internal/engine error (vacuity, canary not caught, solver disagreement).
"""
import argparse
import hashlib
import importlib
import json
import os
import subprocess
import sys
import time
import traceback

import z3

HERE = os.path.dirname(os.path.dirname(os.path.abspath(__file__)))
sys.path.insert(0, HERE)

from pyvc import solve  # noqa: E402
from pyvc.unit import REPO_SRC, load_source  # noqa: E402

VENV_PY = '/venv/bin/python'


def apply_canary(unit, old, new):
    """Return override {relpath: text} with `old` -> `new` inside the unit's function segment (exactly one match)."""
    src = load_source(unit.file)
    fn, sha, seg = unit.load()
    if seg.count(old) != 1:
        return None, f'canary text occurs {seg.count(old)} times in {unit.qual}'
    seg2 = seg.replace(old, new)
    if src.count(seg) != 1:
        return None, 'function segment not unique in file'
    return {unit.file: src.replace(seg, seg2)}, None


def known_findings():
    path = os.path.join(HERE, 'KNOWN_FINDINGS.txt')
    out = []
    if os.path.exists(path):
        for line in open(path):
            line = line.strip()
            if line.startswith('finding:'):
                # finding: property=<id> obligation=<substring> :: <what fails>
                body = line[len('finding:'):].strip()
                meta, _, what = body.partition('::')
                kv = dict(x.split('=', 1) for x in meta.split() if '=' in x)
                out.append({'property': kv.get('property'), 'obligation': kv.get('obligation', '').replace('~', ' '), 'what': what.strip()})
    return out


def run_scenario(script, args=(), timeout=150):
    """Run a replay scenario on the real code of the tree under check.  Returns (failed: bool, tail of output)."""
    env = dict(os.environ)
    env['PYTHONPATH'] = os.path.dirname(REPO_SRC)
    env.pop('MPSERVICE_VERIF', None)
    path = os.path.join(HERE, script)
    if not os.path.exists(path):
        raise FileNotFoundError(path)
    try:
        p = subprocess.run([VENV_PY, path, *map(str, args)], capture_output=True, text=True, timeout=timeout, env=env, cwd='/')
        out = (p.stdout[-1500:] + '\n' + p.stderr[-2500:]).strip()
        return p.returncode != 0, out, [VENV_PY, path, *map(str, args)]
    except subprocess.TimeoutExpired as e:
        return True, f'timeout after {timeout}s (hang)', [VENV_PY, path, *map(str, args)]


def replay_with_scenarios(mod, obligation_name, rec):
    """Try the module's scenarios whose key matches the failed obligation; True if one fails on the real code."""
    for key, script, *rest in getattr(mod, 'SCENARIOS', ()):
        if key and key not in obligation_name:
            continue
        failed, out, cmd = run_scenario(script, rest[0] if rest else ())
        rec.setdefault('scenarios_tried', []).append({'cmd': cmd, 'failed': failed, 'output_tail': out[-1200:]})
        if failed:
            rec['scenario'] = cmd
            rec['observed'] = out[-1500:]
            return True
    return False


def check_repo_import():
    """The interpreter that runs the code imports mpservice from the directory whose files we verify."""
    try:
        p = subprocess.run([VENV_PY, '-c', 'import mpservice,os;print(os.path.dirname(mpservice.__file__))'],
                           capture_output=True, text=True, timeout=60)
        return p.stdout.strip()
    except Exception as e:
        return f'error: {e}'


def run_property(pid, tier, seed):
    t0 = time.time()
    mod = importlib.import_module(f'contracts.{pid.lower()}')
    timeout_ms = 10000 if tier == 'quick' else 60000
    from contracts.axioms import AXIOM_UNITS          # the engine's assumptions about the library's own classes, re-checked against the text on every run
    units = [U() for U in list(mod.UNITS) + [a for a in AXIOM_UNITS if a not in mod.UNITS]]
    all_obls = []
    unit_results = []
    undecided = []
    engine_errors = []
    for u in units:
        r = u.run()
        unit_results.append((u, r))
        if r['status'] != 'ok':
            undecided.append((u.name, r['error']))
        all_obls.extend(r['obligations'])
    asserts = [o for o in all_obls if o.kind == 'assert']
    engine_errors += solve.discharge(asserts, timeout_ms=timeout_ms, cross_check=(tier == 'thorough'))
    t_solve = sum(o.ms for o in asserts)

    # ---- vacuity: every unit yields obligations; every recorded cover is satisfiable
    covers_total = 0
    covers_ok = 0
    for u, r in unit_results:
        if r['status'] == 'ok' and not [o for o in r['obligations'] if o.kind == 'assert']:
            engine_errors.append(f'vacuity: unit {u.name} produced zero obligations')
        for label, pcs in r['covers'].items():
            covers_total += 1
            sat = False
            for pc in pcs:
                s = z3.Solver()
                s.set('timeout', 5000)
                s.add(pc)
                rc_ = s.check()
                if rc_ == z3.unknown:      # a time-out is not "unsatisfiable": asked again with a budget no machine load exhausts (every cover takes < 0.3 s, DESIGN 8.18)
                    s = z3.Solver()
                    s.set('timeout', 60000)
                    s.add(pc)
                    rc_ = s.check()
                if rc_ == z3.sat:
                    sat = True
                    break
            if sat:
                covers_ok += 1
            else:
                engine_errors.append(f'vacuity: cover `{label}` not satisfiable (contradictory assumptions?)')
        for want in getattr(u, 'expected_exits', ()):
            key = f'{u.qual}: exit:{want}'
            if r['status'] == 'ok' and key not in r['covers']:
                engine_errors.append(f'vacuity: unit {u.name} has no feasible `{want}` exit')

    # every discharged obligation must have satisfiable hypotheses (otherwise it holds vacuously)
    vac = 0
    for o in asserts:
        if o.result != 'discharged':
            continue
        sv = z3.Solver()
        sv.set('timeout', 5000)
        sv.add(o.hyps)
        if sv.check() == z3.unsat:
            vac += 1
            engine_errors.append(f'vacuity: hypotheses of `{o.name}` are unsatisfiable')

    # statement coverage per function, union over the units (variants) that verify it
    cov = {}
    for u, r in unit_results:
        if r['status'] == 'ok' and 'want_lines' in r:
            w, g = cov.setdefault((u.file, u.qual), (set(), set()))
            w.update(r['want_lines'])
            g.update(r['reached_lines'])
    undecided_fns = {(u.file, u.qual) for u, r in unit_results if r['status'] != 'ok'}
    for (f_, q_), (w, g) in cov.items():
        if (f_, q_) in undecided_fns:
            continue        # a variant of this function did not run to the end: its coverage is unknown, the unit is reported undecided
        miss = sorted(w - g)
        stale = [f for u, r in unit_results if (u.file, u.qual) == (f_, q_) for f in r.get('stale_unreachable_ok', ())]
        if miss and stale:
            # the contract declares statements unreachable by their text, and that text is no longer in the function: the declaration has to be re-bound by a human
            undecided.append((f'{q_}', f'contract binding error: statements at lines {miss} are on no explored path and the contract\'s unreachable-statement declarations {stale[:3]} match nothing in the current text'))
        elif miss:
            engine_errors.append(f'vacuity: statements of {q_} at lines {miss} lie on no feasible path of any unit (dead under the contract?)')

    failed = [o for o in asserts if o.result == 'failed']
    undec_obls = [o for o in asserts if o.result == 'undecided']
    for o in undec_obls:
        undecided.append((o.name, f'solver: {o.detail}'))

    # ---- canaries: deliberate property-breaking edits of the extracted text must fail the expected obligation
    canary_results = []
    # (failed obligations recorded as known findings do not switch the canaries off: only an unexplained failure does -- the run is a violation then anyway)
    _kf = [k for k in known_findings() if k['property'] == pid]
    if not [o for o in failed if not any(k['obligation'] and k['obligation'] in o.name for k in _kf)]:
        for u, r in unit_results:
            if r['status'] != 'ok':
                continue
            cans = list(u.canaries)
            if tier == 'quick':
                cans = cans[:2]
            for label, old, new, expect in cans:
                ov, err = apply_canary(u, old, new)
                if ov is None:
                    canary_results.append({'unit': u.name, 'canary': label, 'status': 'skipped', 'why': err})
                    continue
                u2 = type(u)()
                r2 = u2.run(override=ov)
                obl2 = [o for o in r2['obligations'] if o.kind == 'assert']
                solve.discharge(obl2, timeout_ms=timeout_ms, jobs=1 if len(obl2) < 24 else None)
                bad = [o.name for o in obl2 if o.result == 'failed']
                hit = [b for b in bad if expect in b]
                if hit:
                    canary_results.append({'unit': u.name, 'canary': label, 'status': 'caught', 'by': hit[0]})
                elif bad or r2['status'] != 'ok':
                    canary_results.append({'unit': u.name, 'canary': label, 'status': 'caught-other',
                                           'by': (bad[0] if bad else 'undecided: ' + str(r2['error']))})
                    if not bad:
                        # a canary is written against the shape the function had when the contract was written.  If its replacement text uses a local
                        # name the CURRENT function no longer has (the code was refactored), the canary does not apply: noted, not an engine error.
                        import re as _re
                        mname = _re.search(r'name `(\w+)`', str(r2['error']))
                        try:
                            cur_names = set(_re.findall(r'[A-Za-z_]\w*', u.load()[2]))
                        except Exception:       # noqa: BLE001
                            cur_names = None
                        if mname and cur_names is not None and mname.group(1) not in cur_names:
                            canary_results[-1]['status'] = 'not-applicable'
                            canary_results[-1]['why'] = f'the canary text uses `{mname.group(1)}`, which the current function does not have'
                        else:
                            engine_errors.append(f'canary `{label}` of {u.name} made the unit undecided instead of failing: {r2["error"]}')
                else:
                    canary_results.append({'unit': u.name, 'canary': label, 'status': 'MISSED'})
                    engine_errors.append(f'canary `{label}` of {u.name} still verifies: the contract is too weak or the engine unsound')

    # ---- violations, known findings, replay
    kf = [k for k in known_findings() if k['property'] == pid]
    printed = []
    violations = []
    known_failed = []
    for o in failed:
        match = [k for k in kf if k['obligation'] and k['obligation'] in o.name]
        if match:
            line = f'KNOWN-FINDING: property={pid} {match[0]["what"]}'
            if line not in printed:
                printed.append(line)
            known_failed.append(o)
            continue
        violations.append(o)
    replay_paths = []
    seen_names = set()
    for o in violations:
        if o.name in seen_names:        # one report per named obligation (the first failing path is kept)
            continue
        seen_names.add(o.name)
        h = hashlib.sha256(o.name.encode()).hexdigest()[:12]
        d = os.path.join(HERE, 'replay', pid)
        os.makedirs(d, exist_ok=True)
        path = os.path.join(d, f'{h}.json')
        rec = {'property': pid, 'obligation': o.name, 'unit': o.unit, 'trace_lines': o.trace[-40:], 'model': o.model,
               'solver': o.backend, 'ms': o.ms, 'smt2': solve.smt2_of(o)[:20000]}
        reproduced = None
        try:
            replayer = getattr(mod, 'replay', None)
            if replayer is not None:
                reproduced = replayer(o, rec)
            if not reproduced:
                reproduced = replay_with_scenarios(mod, o.name, rec)
        except Exception as e:     # replay trouble must never hide the violation
            rec['replay_error'] = repr(e)
        rec['reproduced_on_real_code'] = bool(reproduced)
        json.dump(rec, open(path, 'w'), indent=1, default=str)
        replay_paths.append((o, path, reproduced))

    # ---- dynamic fallback (DESIGN 2.5): undecided units -> run the scenarios on the real code; a failing run is a violation
    battery = []
    dyn_viol = []
    if (undecided and not violations) or tier == 'thorough' or getattr(mod, 'ALWAYS_RUN_SCENARIOS', False):
        scs = list(getattr(mod, 'SCENARIOS', ()))
        if tier == 'thorough':
            scs += list(getattr(mod, 'THOROUGH_SCENARIOS', ()))        # deeper runs of the same batteries: more seeds, larger loads
        for key, script, *rest in scs:
            to = rest[1] if len(rest) > 1 else 150
            sc_failed, out, cmd = run_scenario(script, rest[0] if rest else (), timeout=to)
            if sc_failed:      # re-run once: a scenario must fail twice to count (guards against a loaded machine)
                sc_failed, out, cmd = run_scenario(script, rest[0] if rest else (), timeout=to)
            battery.append({'cmd': ' '.join(cmd), 'failed': sc_failed})
            if sc_failed:
                d = os.path.join(HERE, 'replay', pid)
                os.makedirs(d, exist_ok=True)
                path = os.path.join(d, 'scenario_' + os.path.basename(script) + '.json')
                json.dump({'property': pid, 'obligation': f'runtime scenario {script} (unit undecided or thorough battery)', 'scenario': cmd,
                           'observed': out[-3000:], 'reproduced_on_real_code': True, 'undecided': [f'{n}: {w}' for n, w in undecided]},
                          open(path, 'w'), indent=1)
                dyn_viol.append((script, path))

    # ---- known findings: in the thorough tier their reproductions are run on the real code (expected to fail while the finding stands); the outcome goes
    # into the evidence, it is never a violation and nothing is written to KNOWN_FINDINGS.txt
    finding_runs = []
    if tier == 'thorough' and printed:
        for key, script, *rest in getattr(mod, 'FINDING_SCENARIOS', ()):
            if not any(key in k['obligation'] for k in kf):
                continue
            sc_failed, out, cmd = run_scenario(script, rest[0] if rest else (), timeout=rest[1] if len(rest) > 1 else 150)
            finding_runs.append({'cmd': ' '.join(cmd), 'still_reproduces': bool(sc_failed), 'tail': out[-400:]})

    # ---- evidence
    functions = []
    ignored = []
    trusted = set()
    assumed = set()
    for u, r in unit_results:
        functions.append({'unit': u.name, 'file': 'src/mpservice/' + u.file, 'qualname': u.qual, 'line': r['lineno'], 'sha256': r['sha'],
                          'status': r['status'], 'paths': r['paths'],
                          'obligations': len([o for o in r['obligations'] if o.kind == 'assert']),
                          'error': r['error']})
        for ln, why in r['ignored']:
            ignored.append(f'{u.file}:{ln}: {why}')
        for o in getattr(u, 'ex', None).objs.values() if getattr(u, 'ex', None) else ():
            t = getattr(o, 'trusted', None)
            if t:
                trusted.add(f'{type(o).__name__}: {t}')
        for t in u.trusted:
            trusted.add(t)
        for a in u.assumed_contracts:
            assumed.add(str(a))
    for t in getattr(mod, 'TRUSTED', ()):
        trusted.add(t)
    samples = []
    for o in asserts[:3]:
        samples.append({'obligation': o.name, 'result': o.result, 'backend': o.backend, 'ms': round(o.ms, 2),
                        'smt2_head': solve.smt2_of(o)[-1500:]})
    ev = {
        'property_id': pid, 'tier': tier, 'seed': seed, 'level': 'proof',
        'coverage': {
            # obligations CLAIMED by this proof: every generated obligation except those recorded as known findings (KNOWN_FINDINGS.txt), which are listed separately below
            # with their names -- they are failed, not claimed, and printed as KNOWN-FINDING lines
            'obligations': len(asserts) - len(known_failed),
            'discharged': len([o for o in asserts if o.result == 'discharged']),
            'obligations_generated': len(asserts),
            'known_finding_obligations': [o.name for o in known_failed],
            'failed': len(failed), 'undecided': len(undec_obls),
            'checker_cmd': f'python3-vt -m pyvc.check {pid} --tier {tier}',
            'trusted_base': sorted(trusted) + sorted(getattr(mod, 'ASSUMPTIONS', ())),
            'assumed_contracts_on_repo_functions': sorted(assumed),
            'functions_under_contract': functions,
            'obligation_list': [{'name': o.name, 'result': o.result, 'backend': o.backend, 'ms': round(o.ms, 2)} for o in asserts],
            'solver_ms_total': round(t_solve, 1),
            'vacuity_covers': {'total': covers_total, 'satisfiable': covers_ok},
            'canaries': canary_results,
            'extraction_drops': sorted(set(ignored)),
            'undecided': [f'{n}: {w}' for n, w in undecided],
            'engine_errors': engine_errors,
            'known_findings_printed': printed,
            'known_finding_reproductions': finding_runs,
            'bounded_standins': getattr(mod, 'BOUNDED', []),
            'samples': samples,
            'mpservice_imported_from': check_repo_import(),
            'repo_src': REPO_SRC,
            'not_decided': list(getattr(mod, 'NOT_DECIDED', ())),
        },
        'assumptions': sorted(getattr(mod, 'ASSUMPTIONS', ())),
        'wall_s': round(time.time() - t0, 2),
        'violations': len(violations) + len(dyn_viol),
    }
    ev['coverage']['runtime_scenarios'] = battery
    evdir = os.environ.get('PYVC_EVIDENCE_DIR') or os.path.join(HERE, 'evidence')      # trial runs against scratch trees keep the committed evidence untouched
    os.makedirs(evdir, exist_ok=True)
    json.dump(ev, open(os.path.join(evdir, f'{pid}.json'), 'w'), indent=1, default=str)

    # ---- report
    print(f'[{pid}] tier={tier} units={len(units)} obligations={len(asserts)} discharged={ev["coverage"]["discharged"]} '
          f'failed={len(failed)} undecided={len(undec_obls)} solver_ms={t_solve:.0f} wall_s={ev["wall_s"]}')
    for u, r in unit_results:
        n = len([o for o in r['obligations'] if o.kind == 'assert'])
        d = len([o for o in r['obligations'] if o.kind == 'assert' and o.result == 'discharged'])
        print(f'   unit {u.name:60s} {r["status"]:9s} {d}/{n} discharged' + (f'  [{r["error"]}]' if r['error'] else ''))
    for c in canary_results:
        print(f'   canary {c["unit"]} :: {c["canary"]}: {c["status"]}' + (f' by `{c.get("by")}`' if c.get('by') else '') + (f' ({c.get("why")})' if c.get('why') else ''))
    for line in printed:
        print(line)
    for o, path, reproduced in replay_paths:
        print(f'   FAILED obligation: {o.name}\n      path lines: {o.trace[-16:]}\n      model: {json.dumps(o.model, default=str)[:600]}')
        print(f'VIOLATION property={pid} replay={path}' + ('' if reproduced else ' no-failing-input-found'))
    for script, path in dyn_viol:
        print(f'   runtime scenario {script} FAILS on the real code')
        print(f'VIOLATION property={pid} replay={path}')
    for n, w in undecided:
        print(f'UNDECIDED property={pid} obligation={n} reason={w}')
    for e in engine_errors:
        print(f'ENGINE-ERROR property={pid} {e}')
    if violations or dyn_viol:
        return 1
    if engine_errors:
        return 3
    if undecided:
        return 2
    return 0


def main():
    ap = argparse.ArgumentParser()
    ap.add_argument('pid')
    ap.add_argument('--tier', default=os.environ.get('VERIF_TIER', 'quick'))
    args = ap.parse_args()
    seed = int(os.environ.get('VERIF_SEED', '0'))
    try:
        rc = run_property(args.pid.upper(), args.tier, seed)
    except Exception:
        traceback.print_exc()
        print(f'ENGINE-ERROR property={args.pid} checker crashed')
        rc = 3
    sys.exit(rc)


if __name__ == '__main__':
    main()
