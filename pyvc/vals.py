"""pyvc value model: one SMT sort `Val` for every Python value, plus native sorts where the type is known.

Assumed Python semantics (stated in DESIGN.md 2.1): int is mathematical, float is Real,
`==`/`is` between modelled values is logical equality, attribute lookup is static.
"""
import itertools
import z3

_SMT = """
(declare-datatypes ((Val 0)) (((none) (intv (ival Int)) (boolv (bval Bool)) (realv (rval Real)) (strv (sval String))
   (tup (items (Seq Val))) (lst (elems (Seq Val))) (ref (oid Int)))))
(declare-const dummy!val Val)
(assert (= dummy!val none))
"""
_f = z3.parse_smt2_string(_SMT)
Val = _f[0].arg(0).sort()
_C = {Val.constructor(i).name(): Val.constructor(i) for i in range(Val.num_constructors())}
_R = {Val.constructor(i).name(): Val.recognizer(i) for i in range(Val.num_constructors())}
_A = {}
for _i in range(Val.num_constructors()):
    for _j in range(Val.constructor(_i).arity()):
        _a = Val.accessor(_i, _j)
        _A[_a.name()] = _a

SeqV = z3.SeqSort(Val)
NONE = _C['none']()
intv, boolv, realv, strv, tup, lst, ref = (_C[k] for k in ('intv', 'boolv', 'realv', 'strv', 'tup', 'lst', 'ref'))
is_none, is_intv, is_boolv, is_realv, is_strv, is_tup, is_lst, is_ref = (
    _R[k] for k in ('none', 'intv', 'boolv', 'realv', 'strv', 'tup', 'lst', 'ref'))
ival, bval, rval, sval, items, elems, oid = (_A[k] for k in ('ival', 'bval', 'rval', 'sval', 'items', 'elems', 'oid'))

EMPTY = z3.Empty(SeqV)


def prefix_extension(s, i):
    """`s[:i+1] == s[:i] ++ [s[i]]` -- the formula of the lemma "prefix extension" (valid for 0 <= i < len(s)).  One builder for the lemma unit that proves it for an
    arbitrary (s, i) on every run (contracts.axioms.SeqLemmas) and for the engine, which hands the solver its instance at each step of a `for x in seq` (core.SeqIter.pull)."""
    return z3.SubSeq(s, 0, i + 1) == z3.Concat(z3.SubSeq(s, 0, i), z3.Unit(s[i]))

# ------------------------------------------------------------------ known classes
# A single-inheritance tree of the classes the code under verification mentions.  The class of an
# arbitrary value is abstracted by its Most Specific Known Ancestor (an enumeration constant), so
# isinstance(v, K) is a finite disjunction and needs no axioms.  User-defined classes are covered:
# they are "some class whose most specific known ancestor is X".
CLASS_TREE = {
    'object': None,
    'NoneType': 'object', 'int': 'object', 'bool': 'int', 'float': 'object', 'str': 'object', 'bytes': 'object',
    'tuple': 'object', 'list': 'object', 'dict': 'object', 'type': 'object',
    'TracebackType': 'object', 'RemoteException': 'object', 'Future': 'object',
    'BaseException': 'object',
    'Exception': 'BaseException',
    'GeneratorExit': 'BaseException', 'KeyboardInterrupt': 'BaseException', 'SystemExit': 'BaseException',
    'StopRequested': 'BaseException', 'asyncio.CancelledError': 'BaseException',
    'StopIteration': 'Exception', 'StopAsyncIteration': 'Exception',
    'AttributeError': 'Exception', 'LookupError': 'Exception', 'KeyError': 'LookupError', 'IndexError': 'LookupError',
    'ValueError': 'Exception', 'TypeError': 'Exception', 'AssertionError': 'Exception',
    'RuntimeError': 'Exception', 'NotImplementedError': 'RuntimeError',
    'mp.InvalidStateError': 'RuntimeError',           # mpservice.threading.InvalidStateError
    'ServerBacklogFull': 'RuntimeError', 'EnsembleError': 'RuntimeError',
    'OSError': 'Exception', 'TimeoutError': 'OSError', 'mp.TimeoutError': 'TimeoutError',
    'EOFError': 'Exception', 'IncompleteReadError': 'EOFError',
    'queue.Empty': 'Exception', 'queue.Full': 'Exception',
    'futures.Error': 'Exception', 'futures.CancelledError': 'futures.Error', 'futures.InvalidStateError': 'futures.Error',
    'RemoteTraceback': 'Exception',
    'UnboundLocalError': 'Exception',
}
# names as they appear in source -> tree name
CLASS_ALIASES = {
    'Empty': 'queue.Empty', 'Full': 'queue.Full', 'queue.Empty': 'queue.Empty', 'queue.Full': 'queue.Full',
    'concurrent.futures.TimeoutError': 'TimeoutError', 'asyncio.TimeoutError': 'TimeoutError',
    'concurrent.futures.CancelledError': 'futures.CancelledError', 'asyncio.CancelledError': 'asyncio.CancelledError',
    'concurrent.futures.InvalidStateError': 'futures.InvalidStateError',
    'asyncio.IncompleteReadError': 'IncompleteReadError',
    'builtins.TimeoutError': 'TimeoutError',
}
_names = list(CLASS_TREE)
KCls, _kconsts = z3.EnumSort('KCls', [n.replace('.', '_') for n in _names])
K = dict(zip(_names, _kconsts))
ucls = z3.Function('ucls', Val, KCls)           # most specific known ancestor of the value's class
truthy = z3.Function('truthy', Val, z3.BoolSort())


def descendants(name):
    out = {name}
    changed = True
    while changed:
        changed = False
        for c, p in CLASS_TREE.items():
            if p in out and c not in out:
                out.add(c)
                changed = True
    return out


def ancestors(name):
    out = []
    while name is not None:
        out.append(name)
        name = CLASS_TREE[name]
    return out


def resolve_class(name, local_aliases=None):
    if local_aliases and name in local_aliases:
        return local_aliases[name]
    if name in CLASS_ALIASES:
        return CLASS_ALIASES[name]
    if name in CLASS_TREE:
        return name
    last = name.split('.')[-1]
    if last in CLASS_ALIASES:
        return CLASS_ALIASES[last]
    if last in CLASS_TREE:
        return last
    return None


def cls_facts(v):
    """Ground facts tying the constructor of a Val term to its known class."""
    return [z3.Implies(is_none(v), ucls(v) == K['NoneType']),
            z3.Implies(is_intv(v), ucls(v) == K['int']),
            z3.Implies(is_boolv(v), ucls(v) == K['bool']),
            z3.Implies(is_realv(v), ucls(v) == K['float']),
            z3.Implies(is_strv(v), ucls(v) == K['str']),
            z3.Implies(is_tup(v), ucls(v) == K['tuple']),
            z3.Implies(is_lst(v), ucls(v) == K['list']),
            z3.Implies(ucls(v) == K['NoneType'], is_none(v)),
            z3.Implies(ucls(v) == K['int'], is_intv(v)),         # subclasses of the scalar builtins are not modelled
            z3.Implies(ucls(v) == K['bool'], is_boolv(v)),
            z3.Implies(ucls(v) == K['float'], is_realv(v)),
            z3.Implies(ucls(v) == K['str'], is_strv(v)),
            z3.Implies(z3.Or(ucls(v) == K['tuple']), is_tup(v)),
            z3.Implies(z3.Or(ucls(v) == K['list']), is_lst(v))]


def isinst(v, name):
    """z3 Bool: isinstance(v, <known class name>) for a Val term v."""
    ds = descendants(name)
    if len(ds) == len(CLASS_TREE):
        return z3.BoolVal(True)
    return z3.Or([ucls(v) == K[d] for d in sorted(ds)])


_fresh = itertools.count()


def fresh(prefix, sort=None):
    return z3.Const(f'{prefix}!{next(_fresh)}', Val if sort is None else sort)


def fresh_id():
    return next(_fresh)


class PyTuple:
    """A tuple of statically known arity whose components keep their native representation."""
    __slots__ = ('items',)

    def __init__(self, items):
        self.items = tuple(items)

    def __repr__(self):
        return f'PyTuple{self.items}'


class Unbound:
    def __repr__(self):
        return '<unbound>'


UNBOUND = Unbound()


def is_z3(v):
    return isinstance(v, z3.ExprRef)


def sort_of(v):
    return v.sort() if is_z3(v) else None


def unit(v):
    return z3.Unit(v)


def seq_of(vals):
    vals = list(vals)
    if not vals:
        return EMPTY
    if len(vals) == 1:
        return z3.Unit(vals[0])
    return z3.Concat(*[z3.Unit(v) for v in vals])


def last(s):
    return s[z3.Length(s) - 1]
