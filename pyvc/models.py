"""Trusted models of stdlib objects and of user-supplied callables/iterables (DESIGN.md 2.6).

Every class with a `trusted` string is an *assumed contract*; the evidence of each check lists the ones it used.
"""
import ast
import z3

from . import vals as V
from .vals import Val, SeqV, NONE, PyTuple, fresh, is_z3
from .core import Obj, Callable_, Unsupported, box, as_int, as_seq, unbox_handle, KwPack, ExcClass, BoundMethod, Awaitable_, NOKW


# ------------------------------------------------------------------ spec functions (quantifier-free, snoc-instantiated)
class SpecFn:
    """An uninterpreted function over sequences defined by its value on [] and on snoc."""

    def __init__(self, name, step, result_sort=SeqV, empty=None, extra=None):
        self.f = z3.Function(name, SeqV, result_sort)
        self.step = step            # (F(old), x) -> F(old ++ [x])
        self.empty = empty if empty is not None else (V.EMPTY if result_sort == SeqV else None)
        self.extra = extra          # optional (old, x, new) -> [facts]

    def __call__(self, s):
        return self.f(s)

    def base_facts(self):
        return [self.f(V.EMPTY) == self.empty] if self.empty is not None else []

    def snoc_facts(self, old, x, new):
        facts = [self.f(new) == self.step(self.f(old), x)]
        if self.extra:
            facts += self.extra(old, x, new)
        return facts

    # -- homomorphism lemma F(a ++ b) == comb(F(a), F(b)), proved by explicit induction on b (two QF obligations)
    def hom(self, comb):
        self.comb = comb
        return self

    def concat_fact(self, a, b):
        return self.f(z3.Concat(a, b)) == self.comb(self.f(a), self.f(b))

    def hom_obligations(self):
        """[(name, hyps, goal)]: base and step of the induction proving concat_fact for all a, b."""
        a, b = z3.Const('lem_a', SeqV), z3.Const('lem_b', SeqV)
        x = z3.Const('lem_x', Val)
        nm = self.f.name()
        base = (f'lemma {nm}(a++b) == {nm}(a) (+) {nm}(b): base b=[]', self.base_facts(),
                self.f(z3.Concat(a, V.EMPTY)) == self.comb(self.f(a), self.f(V.EMPTY)))
        ab = z3.Concat(a, b)
        bx = z3.Concat(b, z3.Unit(x))
        hyps = [self.f(ab) == self.comb(self.f(a), self.f(b))]              # induction hypothesis
        hyps += self.snoc_facts(ab, x, z3.Concat(ab, z3.Unit(x)))
        hyps += self.snoc_facts(b, x, bx)
        step = (f'lemma {nm}(a++b) == {nm}(a) (+) {nm}(b): step b -> b++[x]', hyps,
                self.f(z3.Concat(a, bx)) == self.comb(self.f(a), self.f(bx)))
        return [base, step]


def seqof(v):
    """elements of a list/tuple value"""
    return z3.If(V.is_lst(v), V.elems(v), V.items(v))


def snoc(st, seq, x, fns=()):
    new = z3.Concat(seq, z3.Unit(x))
    for f in fns:
        st.assume(*f.snoc_facts(seq, x, new))
    return new


# ------------------------------------------------------------------ user-supplied callables
class UFunc(Callable_):
    """User callable: an uninterpreted function of its (boxed) arguments; per-call outcome fixed (DESIGN 6.4).
    Returns f(args) when ok(args), raises exc(args) (an instance of `raises`) otherwise."""
    trusted = 'user callable: terminates; outcome is a function of its arguments'

    def __init__(self, name, arity=1, raises='Exception', result_sort=Val, with_kw=True):
        self.name = name
        self.arity = arity
        n = arity + (1 if with_kw else 0)
        self.with_kw = with_kw
        self.f = z3.Function(name, *([Val] * n), result_sort)
        self.ok = z3.Function(name + '_ok', *([Val] * n), z3.BoolSort())
        self.exc = z3.Function(name + '_exc', *([Val] * n), Val)
        self.raises = raises
        self.nokw = NOKW

    def argv(self, ex, args, kwargs):
        if len(args) != self.arity:
            raise Unsupported(f'{self.name}: expected {self.arity} positional args, got {len(args)}')
        a = [box(ex, x) for x in args]
        if self.with_kw:
            kw = dict(kwargs)
            pack = kw.pop('**', None)
            if kw:
                # explicit keyword arguments become part of an extended pack term
                kv = V.tup(V.seq_of([V.strv(z3.StringVal(k)) for k in sorted(kw)] + [box(ex, kw[k]) for k in sorted(kw)]
                                    + [pack.val if isinstance(pack, KwPack) else self.nokw]))
                a.append(kv)
            else:
                a.append(pack.val if isinstance(pack, KwPack) else self.nokw)
        elif kwargs:
            raise Unsupported(f'{self.name}: unexpected kwargs')
        return a

    def app(self, ex, *args, kw=None):
        a = [box(ex, x) for x in args]
        if self.with_kw:
            a.append(kw if kw is not None else self.nokw)
        return self.f(*a), self.ok(*a), self.exc(*a)

    def invoke(self, ex, st, args, kwargs, node):
        a = self.argv(ex, args, kwargs)
        outs = []
        s1 = st.fork().assume(self.ok(*a))
        if ex.feasible(s1):
            outs.append(('ok', s1, self.f(*a)))
        if self.raises:
            e = self.exc(*a)
            s2 = st.fork().assume(z3.Not(self.ok(*a)), V.isinst(e, self.raises), *V.cls_facts(e))
            if ex.feasible(s2):
                outs.append(('raise', s2, e))
        else:
            s1.assume(self.ok(*a))
        return outs


# ------------------------------------------------------------------ iterables
class Source(Obj):
    """A user-supplied iterable/iterator.  Ghosts: <key>.seen (elements pulled so far), <key>.done, <key>.failed.
    Each pull nondeterministically ends, fails (if may_raise) or yields a fresh element."""
    trusted = 'user iterable: each next() returns a value, raises StopIteration, or raises (if allowed); exhausted iterators stay exhausted'

    def __init__(self, ex, key='src', may_raise=None, elem_facts=None, fns=(), label=None):
        super().__init__(ex, label or key)
        self.key = key
        self.may_raise = may_raise         # class name or tuple of class names
        self.elem_facts = elem_facts       # x -> [facts] (e.g. x is not a library sentinel)
        self.fns = fns                     # spec functions instantiated on every snoc of `seen`

    def init(self, st):
        st.ghost[self.key + '.seen'] = V.EMPTY
        st.ghost[self.key + '.done'] = z3.BoolVal(False)
        st.ghost[self.key + '.failed'] = z3.BoolVal(False)
        st.ghost[self.key + '.pulls'] = z3.IntVal(0)

    def seen(self, st):
        return st.ghost[self.key + '.seen']

    def done(self, st):
        return st.ghost[self.key + '.done']

    def failed(self, st):
        return st.ghost[self.key + '.failed']

    def havoc(self, ex, st):
        pass    # ghosts are havocked by the generic ghost havoc

    def iter_start(self, ex, st, node):
        return [('ok', st, self)]

    def m___iter__(self, ex, st, args, kwargs, node):
        return [('ok', st, self)]

    def pull(self, ex, st, node):
        outs = []
        ended = z3.Or(self.done(st), self.failed(st))
        # already ended -> StopIteration again
        s0 = st.fork().assume(ended)
        if ex.feasible(s0):
            outs.append(('stop', s0, None))
        live = st.fork().assume(z3.Not(ended))
        if not ex.feasible(live):
            return outs
        live.ghost[self.key + '.pulls'] = live.ghost[self.key + '.pulls'] + 1
        s1 = live.fork()
        s1.ghost[self.key + '.done'] = z3.BoolVal(True)
        outs.append(('stop', s1, None))
        s2 = live.fork()
        x = fresh('x')
        if self.elem_facts:
            s2.assume(*self.elem_facts(x))
        s2.ghost[self.key + '.seen'] = snoc(s2, self.seen(s2), x, self.fns)
        outs.append(('item', s2, x))
        if self.may_raise:
            s3 = live.fork()
            e = fresh('e_src')
            classes = self.may_raise if isinstance(self.may_raise, (tuple, list)) else (self.may_raise,)
            s3.assume(z3.Or([V.isinst(e, c) for c in classes]), *V.cls_facts(e))
            s3.assume(z3.Not(V.isinst(e, 'StopIteration')), z3.Not(V.isinst(e, 'GeneratorExit')))
            s3.ghost[self.key + '.failed'] = z3.BoolVal(True)
            s3.ghost[self.key + '.error'] = e
            outs.append(('raise', s3, e))
        return outs


# ------------------------------------------------------------------ containers
class Deque(Obj):
    """collections.deque with optional maxlen (append drops the oldest when full)."""
    trusted = 'collections.deque: append/popleft/len/iteration; maxlen drops from the left'

    def __init__(self, ex, maxlen=None, label='deque'):
        super().__init__(ex, label)
        self.maxlen = maxlen

    def init(self, st, content=None):
        self.set(st, 'q', content if content is not None else V.EMPTY)
        self.set(st, 'dropped', V.EMPTY)      # ghost: everything a bounded deque has discarded from its left end

    def m_append(self, ex, st, args, kwargs, node):
        x = box(ex, args[0])
        q = self.get(st, 'q')
        if self.maxlen is None:
            st = st.fork()
            self.set(st, 'q', z3.Concat(q, z3.Unit(x)))
            return [('ok', st, NONE)]
        outs = []
        s1 = st.fork().assume(z3.Length(q) < self.maxlen)
        if ex.feasible(s1):
            self.set(s1, 'q', z3.Concat(q, z3.Unit(x)))
            outs.append(('ok', s1, NONE))
        s2 = st.fork().assume(z3.Length(q) >= self.maxlen, self.maxlen > 0)
        if ex.feasible(s2):
            # full: the oldest element is discarded
            s2.assume(q == z3.Concat(z3.Unit(q[0]), z3.SubSeq(q, 1, z3.Length(q) - 1)))      # head/tail split of a non-empty sequence
            self.set(s2, 'dropped', z3.Concat(self.get(s2, 'dropped'), z3.Unit(q[0])))
            self.set(s2, 'q', z3.Concat(z3.SubSeq(q, 1, z3.Length(q) - 1), z3.Unit(x)))
            outs.append(('ok', s2, NONE))
        s3 = st.fork().assume(self.maxlen <= 0)
        if ex.feasible(s3):
            self.set(s3, 'dropped', z3.Concat(self.get(s3, 'dropped'), z3.Unit(x)))
            outs.append(('ok', s3, NONE))
        return outs

    def m_popleft(self, ex, st, args, kwargs, node):
        q = self.get(st, 'q')
        outs = []
        s1 = st.fork().assume(z3.Length(q) > 0)
        if ex.feasible(s1):
            self.set(s1, 'q', z3.SubSeq(q, 1, z3.Length(q) - 1))
            outs.append(('ok', s1, q[0]))
        s2 = st.fork().assume(z3.Length(q) == 0)
        if ex.feasible(s2):
            outs.append(ex.raise_new(s2, 'IndexError'))
        return outs

    def m_pop(self, ex, st, args, kwargs, node):
        q = self.get(st, 'q')
        outs = []
        s1 = st.fork().assume(z3.Length(q) > 0)
        if ex.feasible(s1):
            self.set(s1, 'q', z3.SubSeq(q, 0, z3.Length(q) - 1))
            outs.append(('ok', s1, q[z3.Length(q) - 1]))
        s2 = st.fork().assume(z3.Length(q) == 0)
        if ex.feasible(s2):
            outs.append(ex.raise_new(s2, 'IndexError'))
        return outs

    def m_appendleft(self, ex, st, args, kwargs, node):
        st = st.fork()
        self.set(st, 'q', z3.Concat(z3.Unit(box(ex, args[0])), self.get(st, 'q')))
        return [('ok', st, NONE)]

    def length(self, ex, st, node):
        return [('ok', st, z3.Length(self.get(st, 'q')))]

    def yield_from(self, ex, st, node):
        return ex.unit.on_yield_from_seq(ex, st, self.get(st, 'q'), node)

    def iter_start(self, ex, st, node):
        from .core import SeqIter
        it = SeqIter(ex, self.get(st, 'q'))
        st = st.fork()
        it.init(st)
        return [('ok', st, it)]


class DequeCtor(Callable_):
    trusted = Deque.trusted

    def invoke(self, ex, st, args, kwargs, node):
        ml = kwargs.get('maxlen')
        if ml is not None:
            ml = as_int(ex, st, ml)
        d = Deque(ex, maxlen=ml)
        st = st.fork()
        d.init(st, as_seq(ex, st, args[0]) if args else None)
        return [('ok', st, d)]


class Clock(Callable_):
    """time.perf_counter / time.monotonic on a ghost clock: non-decreasing; time passes only in blocking models."""
    trusted = 'time.perf_counter: monotone non-decreasing real-valued clock (float treated as exact real)'

    def __init__(self, key='clock'):
        self.key = key

    def invoke(self, ex, st, args, kwargs, node):
        st = st.fork()
        t = fresh('now', z3.RealSort())
        st.assume(t >= st.ghost[self.key])
        st.ghost[self.key] = t
        return [('ok', st, t)]


class Nop(Callable_):
    def __init__(self, ret=NONE):
        self.ret = ret

    def invoke(self, ex, st, args, kwargs, node):
        return [('ok', st, self.ret)]


class Event(Obj):
    """threading.Event seen from one role: is_set() is volatile unless this role set it (monotone once set,
    as no role in the verified code clears it unless `clearable`)."""
    trusted = 'threading.Event: set() makes is_set() True until clear(); is_set() is atomic'
    cls_name = 'Event'

    def __init__(self, ex, label='event', clearable=False):
        super().__init__(ex, label)
        self.clearable = clearable

    def init(self, st, is_set=False):
        self.set(st, 'flag', z3.BoolVal(is_set))

    def havoc(self, ex, st):
        # another role may set it at any time; only this role's knowledge "it is set" is stable if not clearable
        cur = self.get(st, 'flag')
        new = fresh(self.label + '.flag', z3.BoolSort())
        if not self.clearable:
            st.assume(z3.Implies(cur, new))
        self.set(st, 'flag', new)

    def m_is_set(self, ex, st, args, kwargs, node):
        # interference: others may have set it since we last looked
        st = st.fork()
        self.havoc(ex, st)
        return [('ok', st, self.get(st, 'flag'))]

    def m_set(self, ex, st, args, kwargs, node):
        st = st.fork()
        self.set(st, 'flag', z3.BoolVal(True))
        return [('ok', st, NONE)]

    def m_clear(self, ex, st, args, kwargs, node):
        st = st.fork()
        self.set(st, 'flag', z3.BoolVal(False))
        return [('ok', st, NONE)]

    def m_wait(self, ex, st, args, kwargs, node):
        # wait(timeout): returns the flag as it is when the wait ends (others may have set it meanwhile); an untimed wait only returns once it is set
        st = st.fork()
        self.havoc(ex, st)
        timed = bool(args) or 'timeout' in kwargs
        st.ghost['#blocking'] = st.ghost.get('#blocking', ()) + ((node.lineno, 'event.wait(timeout)' if timed else 'event.wait()', ()),)
        if not timed:
            st.assume(self.get(st, 'flag'))
        return [('ok', st, self.get(st, 'flag'))]


# ------------------------------------------------------------------ generic records / self objects
class Rec(Obj):
    """A plain object: attributes are heap fields; methods may be supplied as model callables."""

    def __init__(self, ex, label='obj', cls_name='object', methods=None, immutable=False, volatile=None):
        super().__init__(ex, label)
        self.cls_name = cls_name
        self.methods = dict(methods or {})
        self.immutable = immutable
        self.volatile = dict(volatile or {})     # field -> callable(ex, st) -> outcomes, re-read on each access

    def init(self, st, **fields):
        for k, v in fields.items():
            self.set(st, k, v)
        return self

    def getattr(self, ex, st, name, node):
        if name in self.volatile:
            return self.volatile[name](ex, st)
        if self.has(st, name):
            return [('ok', st, self.get(st, name))]
        if name in self.methods:
            return [('ok', st, self.methods[name])]
        if self.label == 'self' and ex.unit.resolve_method(name) is not None:
            return [('ok', st, BoundMethod(self, name))]
        raise Unsupported(f'{self.label}.{name} (line {getattr(node, "lineno", "?")})')

    def call(self, ex, st, meth, args, kwargs, node):
        if meth in self.methods:
            return ex.call_value(st, self.methods[meth], args, kwargs, node)
        if self.has(st, meth):
            return ex.call_value(st, self.get(st, meth), args, kwargs, node)
        # a method of the class under verification that the contract does not model (e.g. a helper extracted by a refactoring):
        # its real body is inlined (caller checked against the callee's code, not a contract)
        if self.label == 'self':
            res = ex.unit.resolve_method(meth)
            if res is not None:
                fn, static = res
                from .core import Closure
                ex.note_ignored(node, f'method `{meth}` has no contract: its body (line {fn.lineno}) is inlined')
                return ex.inline(st, Closure(fn, ex), (list(args) if static else [self] + list(args)), kwargs, node)
        raise Unsupported(f'{self.label}.{meth}()')

    def havoc(self, ex, st):
        if self.immutable:
            return
        for (o, f), v in list(st.heap.items()):
            if o == self.oid and is_z3(v):
                st.heap[(o, f)] = fresh(f'{self.label}.{f}', v.sort())


class Fn(Callable_):
    """Wrap a python function (ex, st, args, kwargs, node) -> outcomes as a model callable."""

    def __init__(self, fn, trusted=None, name=None):
        self.fn = fn
        self.trusted = trusted
        self.name = name or getattr(fn, '__name__', 'fn')

    def invoke(self, ex, st, args, kwargs, node):
        return self.fn(ex, st, args, kwargs, node)


# ------------------------------------------------------------------ queues on a ghost clock (single consumer view)
RealSeq = z3.SeqSort(z3.RealSort())


class TimedQueue(Obj):
    """A queue seen from its consumer, on a ghost clock.  Time passes only inside blocking calls (idealisation,
    DESIGN 6.6): get() blocks arbitrarily long and returns an item; get(timeout=t) returns an item no later than
    clock+t or raises queue.Empty at exactly clock+t; get(block=False)/get_nowait() is immediate.
    Ghosts: <key>.taken (items returned so far), <key>.times (return time of each), clock."""
    trusted = 'queue.Queue/SimpleQueue/SingleLane.get as seen by one consumer: blocking get returns the next item; timed get returns it within the timeout or raises Empty at the timeout; time passes only in blocking calls'

    def __init__(self, ex, key='q', fns=(), clock='clock', label=None):
        super().__init__(ex, label or key)
        self.key, self.fns, self.clock = key, fns, clock

    def init(self, st):
        st.ghost[self.key + '.taken'] = V.EMPTY
        st.ghost[self.key + '.times'] = z3.Empty(RealSeq)
        st.ghost[self.key + '.last_empty'] = z3.BoolVal(False)
        if self.clock not in st.ghost:
            st.ghost[self.clock] = z3.RealVal(0)

    def taken(self, st):
        return st.ghost[self.key + '.taken']

    def times(self, st):
        return st.ghost[self.key + '.times']

    def havoc(self, ex, st):
        pass

    def _item(self, ex, st, t_ret):
        z = fresh('item')
        st.ghost[self.clock] = t_ret
        st.ghost[self.key + '.taken'] = snoc(st, self.taken(st), z, self.fns)
        st.ghost[self.key + '.times'] = z3.Concat(self.times(st), z3.Unit(t_ret))
        st.ghost[self.key + '.last_empty'] = z3.BoolVal(False)
        return z

    def m_get(self, ex, st, args, kwargs, node):
        block = args[0] if args else kwargs.get('block')
        timeout = args[1] if len(args) > 1 else kwargs.get('timeout')
        now = st.ghost[self.clock]
        if block is not None and not z3.is_true(z3.simplify(block)):
            if z3.is_false(z3.simplify(block)):
                timeout = z3.RealVal(0)
            else:
                raise Unsupported('symbolic block flag')
        if timeout is None or (is_z3(timeout) and timeout.sort() == Val and timeout.eq(NONE)):
            s = st.fork()
            t = fresh('t_ret', z3.RealSort())
            s.assume(t >= now)
            z = self._item(ex, s, t)
            return [('ok', s, z)]
        if timeout.sort() == z3.IntSort():
            timeout = z3.ToReal(timeout)
        ex.oblige(st, f'line {node.lineno}: timeout passed to get() is non-negative', timeout >= 0)
        outs = []
        s1 = st.fork()
        t = fresh('t_ret', z3.RealSort())
        s1.assume(t >= now, t <= now + timeout)
        z = self._item(ex, s1, t)
        outs.append(('ok', s1, z))
        s2 = st.fork()
        s2.ghost[self.clock] = now + timeout
        s2.ghost[self.key + '.last_empty'] = z3.BoolVal(True)
        (k, s2, e) = ex.raise_new(s2, 'queue.Empty')
        outs.append((k, s2, e))
        return outs

    def m_get_nowait(self, ex, st, args, kwargs, node):
        return self.m_get(ex, st, [z3.BoolVal(False)], {}, node)


class GhostClock(Callable_):
    """time.perf_counter on the ghost clock (exact read, no time passes)."""
    trusted = 'time.perf_counter reads the ghost clock; computation between blocking calls takes no time (idealisation)'

    def __init__(self, key='clock'):
        self.key = key

    def invoke(self, ex, st, args, kwargs, node):
        return [('ok', st, st.ghost[self.key])]


class Sleep(Callable_):
    trusted = 'time.sleep(t) advances the ghost clock by t'

    def __init__(self, key='clock'):
        self.key = key

    def invoke(self, ex, st, args, kwargs, node):
        st = st.fork()
        t = args[0]
        if t.sort() == z3.IntSort():
            t = z3.ToReal(t)
        st.ghost[self.key] = st.ghost[self.key] + t
        st.ghost['slept'] = st.ghost.get('slept', z3.RealVal(0)) + t
        return [('ok', st, NONE)]


# ------------------------------------------------------------------ futures, pipes (sequential view)
class Future(Obj):
    """concurrent.futures.Future with concrete identity, seen by the code that resolves / queries it.
    state: done (Bool), is_exc (Bool), val (Val).  Resolving twice is a failed obligation (CPython raises InvalidStateError)."""
    trusted = 'concurrent.futures.Future: set_result/set_exception resolve a pending future exactly once; result()/exception() report that outcome'
    cls_name = 'Future'

    def __init__(self, ex, label='future'):
        super().__init__(ex, label)

    def init(self, st, done=False):
        self.set(st, 'done', z3.BoolVal(done))
        self.set(st, 'is_exc', z3.BoolVal(False))
        self.set(st, 'val', NONE)
        self.set(st, 'nset', z3.IntVal(0))
        return self

    def havoc(self, ex, st):
        pass        # only the verified role resolves it (single resolver); queried after the resolver finished

    def _resolve(self, ex, st, v, is_exc, node):
        ex.oblige(st, f'line {node.lineno}: the future is still pending when it is resolved (exactly-once)', z3.Not(self.get(st, 'done')))
        st = st.fork()
        self.set(st, 'done', z3.BoolVal(True))
        self.set(st, 'is_exc', z3.BoolVal(is_exc))
        self.set(st, 'val', box(ex, v))
        self.set(st, 'nset', self.get(st, 'nset') + 1)
        return [('ok', st, NONE)]

    def m_set_result(self, ex, st, args, kwargs, node):
        return self._resolve(ex, st, args[0], False, node)

    def m_set_exception(self, ex, st, args, kwargs, node):
        ex.oblige(st, f'line {node.lineno}: set_exception is given an exception', V.isinst(box(ex, args[0]), 'BaseException'))
        return self._resolve(ex, st, args[0], True, node)

    def m_done(self, ex, st, args, kwargs, node):
        return [('ok', st, self.get(st, 'done'))]

    def m_exception(self, ex, st, args, kwargs, node):
        ex.oblige(st, f'line {node.lineno}: the future is resolved when its outcome is read (no indefinite wait)', self.get(st, 'done'))
        st = st.fork().assume(self.get(st, 'done'))
        return [('ok', st, z3.If(self.get(st, 'is_exc'), self.get(st, 'val'), NONE))]

    def m_result(self, ex, st, args, kwargs, node):
        ex.oblige(st, f'line {node.lineno}: the future is resolved when its outcome is read (no indefinite wait)', self.get(st, 'done'))
        st = st.fork().assume(self.get(st, 'done'))
        outs = []
        s1 = st.fork().assume(z3.Not(self.get(st, 'is_exc')))
        if ex.feasible(s1):
            outs.append(('ok', s1, self.get(st, 'val')))
        s2 = st.fork().assume(self.get(st, 'is_exc'))
        if ex.feasible(s2):
            outs.append(('raise', s2, self.get(st, 'val')))
        return outs


class FutureCtor(Callable_):
    trusted = Future.trusted

    def invoke(self, ex, st, args, kwargs, node):
        f = Future(ex)
        st = st.fork()
        f.init(st)
        return [('ok', st, f)]


class PipeWriter(Obj):
    """multiprocessing Connection, sending end: ghost `sent` (objects sent in order), `closed`."""
    trusted = 'multiprocessing.Connection: objects sent are received in order, intact (pickle fidelity); recv on a closed, drained pipe raises EOFError'

    def init(self, st):
        self.set(st, 'sent', V.EMPTY)
        self.set(st, 'closed', z3.BoolVal(False))
        return self

    def havoc(self, ex, st):
        pass

    def m_send(self, ex, st, args, kwargs, node):
        ex.oblige(st, f'line {node.lineno}: send on an open connection', z3.Not(self.get(st, 'closed')))
        st = st.fork()
        self.set(st, 'sent', z3.Concat(self.get(st, 'sent'), z3.Unit(box(ex, args[0]))))
        return [('ok', st, NONE)]

    def m_close(self, ex, st, args, kwargs, node):
        st = st.fork()
        self.set(st, 'closed', z3.BoolVal(True))
        return [('ok', st, NONE)]


class PipeReader(Obj):
    """receiving end: each recv returns the next object the peer sent, or raises EOFError if the peer died/closed first.
    ghost `script`: what the peer will have sent (a prefix of its contract's two messages when it crashes)."""
    trusted = PipeWriter.trusted

    def init(self, st, script):
        self.set(st, 'script', script)         # Seq of what the peer sends before closing/dying
        self.set(st, 'nrecv', z3.IntVal(0))
        self.set(st, 'closed', z3.BoolVal(False))
        return self

    def havoc(self, ex, st):
        pass

    def m_recv(self, ex, st, args, kwargs, node):
        sc, n = self.get(st, 'script'), self.get(st, 'nrecv')
        outs = []
        s1 = st.fork().assume(n < z3.Length(sc))
        if ex.feasible(s1):
            self.set(s1, 'nrecv', n + 1)
            outs.append(('ok', s1, sc[n]))
        s2 = st.fork().assume(n >= z3.Length(sc))
        if ex.feasible(s2):
            s2.ghost['peer_gone'] = z3.BoolVal(True)
            outs.append(ex.raise_new(s2, 'EOFError'))
        return outs

    def m_close(self, ex, st, args, kwargs, node):
        st = st.fork()
        self.set(st, 'closed', z3.BoolVal(True))
        return [('ok', st, NONE)]


# ------------------------------------------------------------------ locks and conditions (E2: one role's view + interference hooks)
class Lock(Obj):
    """threading.Lock / RLock as seen by the role under verification.  `held` counts this role's acquisitions.
    Interference by other roles is applied by the unit's hooks: unit.on_acquire(ex, st, lock) right after the lock is
    taken (everything other roles may have done while it was free) -- DESIGN 2.3."""
    trusted = 'threading.Lock/RLock: mutual exclusion; `with` releases on every exit; acquire(timeout=t) returns False on expiry'
    cls_name = 'Lock'

    def __init__(self, ex, label='lock', reentrant=False):
        super().__init__(ex, label)
        self.reentrant = reentrant

    def init(self, st):
        self.set(st, 'held', z3.IntVal(0))
        return self

    def havoc(self, ex, st):
        pass

    def held(self, st):
        return self.get(st, 'held')

    def _take(self, ex, st, node):
        if not self.reentrant:
            ex.oblige(st, f'line {node.lineno}: {self.label} is not already held by this thread (self-deadlock)', self.held(st) == 0)
        st = st.fork()
        self.set(st, 'held', self.held(st) + 1)
        hook = getattr(ex.unit, 'on_acquire', None)
        if hook:
            hook(ex, st, self, node)
        return st

    def cm_enter(self, ex, st, node):
        st = self._take(ex, st, node)
        st.ghost['#blocking'] = st.ghost.get('#blocking', ()) + ((node.lineno, f'acquire {self.label}', tuple(self.locks_held_labels(ex, st, exclude=self))),)
        return [('ok', st, self)]

    def cm_exit(self, ex, st, node, outcome):
        st = st.fork()
        self.set(st, 'held', self.held(st) - 1)
        hook = getattr(ex.unit, 'on_release', None)
        if hook:
            hook(ex, st, self, node)
        return [('ok', st, False)]

    def m_acquire(self, ex, st, args, kwargs, node):
        timeout = kwargs.get('timeout', args[1] if len(args) > 1 else None)
        blocking = kwargs.get('blocking', args[0] if args else None)
        s1 = self._take(ex, st, node)
        outs = [('ok', s1, z3.BoolVal(True))]
        if timeout is not None or (blocking is not None and not z3.is_true(z3.simplify(blocking))):
            outs.append(('ok', st.fork(), z3.BoolVal(False)))
        else:
            s1.ghost['#blocking'] = s1.ghost.get('#blocking', ()) + ((node.lineno, f'acquire {self.label}', tuple(self.locks_held_labels(ex, st, exclude=self))),)
        return outs

    def m_release(self, ex, st, args, kwargs, node):
        ex.oblige(st, f'line {node.lineno}: {self.label} is held when released', self.held(st) >= 1)
        st = st.fork()
        self.set(st, 'held', self.held(st) - 1)
        return [('ok', st, NONE)]

    def m_locked(self, ex, st, args, kwargs, node):
        return [('ok', st, fresh('locked', z3.BoolSort()))]

    def locks_held_labels(self, ex, st, exclude=None):
        out = []
        for o in ex.objs.values():
            if isinstance(o, Lock) and o is not exclude and o.has(st, 'held'):
                h = z3.simplify(o.held(st))
                if not (z3.is_int_value(h) and h.as_long() == 0):
                    out.append(o.label)
        return out


class Condition(Obj):
    """threading.Condition over a Lock.  wait() releases the lock for its duration; what other roles may do meanwhile is
    supplied by unit.on_wait(ex, st, cond, notified: bool) which must havoc the shared state according to the rely.
    Trusted: no spurious wake-ups: wait() returns True only if a notify() on this condition happened during the wait."""
    trusted = 'threading.Condition: wait() releases and re-acquires the lock; returns True only after a notify() issued during the wait (no spurious wake-ups in CPython); wait(timeout) returns False on expiry'
    cls_name = 'Condition'

    def __init__(self, ex, lock, label='cond'):
        super().__init__(ex, label)
        self.lock = lock

    def init(self, st):
        self.set(st, 'notifies', z3.IntVal(0))
        return self

    def havoc(self, ex, st):
        pass

    def cm_enter(self, ex, st, node):
        return self.lock.cm_enter(ex, st, node)

    def cm_exit(self, ex, st, node, outcome):
        return self.lock.cm_exit(ex, st, node, outcome)

    def m_acquire(self, ex, st, args, kwargs, node):
        return self.lock.m_acquire(ex, st, args, kwargs, node)

    def m_release(self, ex, st, args, kwargs, node):
        return self.lock.m_release(ex, st, args, kwargs, node)

    def m_wait(self, ex, st, args, kwargs, node):
        timeout = kwargs.get('timeout', args[0] if args else None)
        ex.oblige(st, f'line {node.lineno}: {self.label}.wait() is called with its lock held', self.lock.held(st) >= 1)
        untimed = timeout is None or (is_z3(timeout) and timeout.sort() == Val and z3.is_true(z3.simplify(timeout == NONE)))
        maybe_none = is_z3(timeout) and timeout.sort() == Val and not untimed
        outs = []
        hook = getattr(ex.unit, 'on_wait', None)
        if hook is None:
            raise Unsupported(f'{self.label}.wait() without an interference specification (unit.on_wait)')
        st = st.fork()
        st.ghost['#wait_timeout'] = timeout
        s1 = st.fork()
        s1.ghost['#waits'] = s1.ghost.get('#waits', 0) + 1
        hook(ex, s1, self, True, node)
        if untimed:
            s1.ghost['#blocking'] = s1.ghost.get('#blocking', ()) + ((node.lineno, f'wait {self.label}', tuple(self.lock.locks_held_labels(ex, st, exclude=self.lock))),)
        outs.append(('ok', s1, z3.BoolVal(True)))
        if not untimed:
            s2 = st.fork()
            if maybe_none:
                s2.assume(timeout != NONE)
            s2.ghost['#waits'] = s2.ghost.get('#waits', 0) + 1
            hook(ex, s2, self, False, node)
            if ex.feasible(s2):
                outs.append(('ok', s2, z3.BoolVal(False)))
        return outs

    def m_notify(self, ex, st, args, kwargs, node):
        ex.oblige(st, f'line {node.lineno}: {self.label}.notify() is called with its lock held', self.lock.held(st) >= 1)
        st = st.fork()
        self.set(st, 'notifies', self.get(st, 'notifies') + 1)
        hook = getattr(ex.unit, 'on_notify', None)
        if hook:
            hook(ex, st, self, node)
        return [('ok', st, NONE)]

    m_notify_all = m_notify


# ------------------------------------------------------------------ hand-off queues seen by one role (history functions of the index)
class QueueWriter(Obj):
    """A FIFO hand-off queue seen by its single writer: the k-th put (k = <key>.nput) is checked against the per-item
    guarantee by unit.on_put(ex, st, q, k, item, node).  (SingleLane / asyncio.Queue / queue.Queue contract: FIFO, blocks when full.)"""
    trusted = 'FIFO queue contract (SingleLane: proved in contracts/singlelane.py; asyncio.Queue/queue.Queue/SimpleQueue: trusted): the k-th get returns the k-th put'

    def __init__(self, ex, key='q', label=None, maxsize=None):
        super().__init__(ex, label or key)
        self.key = key
        self.maxsize = maxsize

    def init(self, st):
        st.ghost[self.key + '.nput'] = z3.IntVal(0)
        return self

    def nput(self, st):
        return st.ghost[self.key + '.nput']

    def havoc(self, ex, st):
        pass

    def m_put(self, ex, st, args, kwargs, node):
        block = kwargs.get('block', args[1] if len(args) > 1 else None)
        timeout = kwargs.get('timeout', args[2] if len(args) > 2 else None)
        may_fail = (block is not None and not z3.is_true(z3.simplify(block))) or \
                   (timeout is not None and not (is_z3(timeout) and timeout.sort() == Val and z3.is_true(z3.simplify(timeout == NONE))))
        s0 = st
        st = st.fork()
        k = self.nput(st)
        item = args[0]
        ex.unit.on_put(ex, st, self, k, item, node)
        st.ghost[self.key + '.nput'] = k + 1
        outs = [('ok', st, NONE)]
        if may_fail:
            outs.append(ex.raise_new(s0.fork(), 'queue.Full'))      # non-blocking / timed put on a full queue
        else:
            st.ghost['#blocking'] = st.ghost.get('#blocking', ()) + ((node.lineno, f'put {self.label}', ()),)
        return outs

    def m_put_nowait(self, ex, st, args, kwargs, node):
        return self.m_put(ex, st, args, {'block': z3.BoolVal(False)}, node)

    def m_full(self, ex, st, args, kwargs, node):
        return [('ok', st, fresh('full', z3.BoolSort()))]        # volatile: the reader may take items at any time

    def m_empty(self, ex, st, args, kwargs, node):
        return [('ok', st, fresh('empty', z3.BoolSort()))]

    def m_qsize(self, ex, st, args, kwargs, node):
        n = fresh('qsize', z3.IntSort())
        return [('ok', st.fork().assume(n >= 0), n)]


class QueueReader(Obj):
    """The same queue seen by its single reader: the k-th get (k = <key>.nget) returns an item about which only the
    writer's per-item guarantee is known: unit.on_get(ex, st, q, k, z, node) -> list of states (case split)."""
    trusted = QueueWriter.trusted

    def __init__(self, ex, key='q', label=None, maxsize=None):
        super().__init__(ex, label or key)
        self.key = key
        self.maxsize = maxsize

    def init(self, st):
        st.ghost[self.key + '.nget'] = z3.IntVal(0)
        return self

    def nget(self, st):
        return st.ghost[self.key + '.nget']

    def havoc(self, ex, st):
        pass

    def _get(self, ex, st, node, blocking=True):
        k = self.nget(st)
        z = fresh('got')
        outs = []
        for s in ex.unit.on_get(ex, st, self, k, z, node):
            s.ghost[self.key + '.nget'] = k + 1
            if blocking:
                s.ghost['#blocking'] = s.ghost.get('#blocking', ()) + ((node.lineno, f'get {self.label}', ()),)
            if ex.feasible(s):
                outs.append(('ok', s, z))
        return outs

    def m_get(self, ex, st, args, kwargs, node):
        block = kwargs.get('block', args[0] if args else None)
        timeout = kwargs.get('timeout', args[1] if len(args) > 1 else None)
        nonblocking = block is not None and z3.is_false(z3.simplify(block))
        if block is not None and not nonblocking and not z3.is_true(z3.simplify(block)):
            raise Unsupported('QueueReader.get with symbolic block flag')
        timed = timeout is not None and not (is_z3(timeout) and timeout.sort() == Val and z3.is_true(z3.simplify(timeout == NONE)))
        if not nonblocking and not timed:
            return self._get(ex, st, node)
        # timed / non-blocking get: the next item if the writer has already put it, else queue.Empty (the writer may be slow)
        outs = self._get(ex, st, node, blocking=False)
        outs.append(ex.raise_new(st.fork(), 'queue.Empty'))
        return outs

    def m_get_nowait(self, ex, st, args, kwargs, node):
        outs = self._get(ex, st, node, blocking=False)
        outs.append(ex.raise_new(st.fork(), 'queue.Empty'))
        return outs

    def m_empty(self, ex, st, args, kwargs, node):
        # volatile: the writer may put at any time; unit.on_empty may constrain (e.g. nothing left after the terminal item)
        hook = getattr(ex.unit, 'on_empty', None)
        b = fresh('empty', z3.BoolSort())
        st = st.fork()
        if hook:
            hook(ex, st, self, b, node)
        return [('ok', st, b)]


fut_ok = z3.Function('fut_ok', Val, z3.BoolSort())       # outcome of a future (fixed once resolved; read only via result()/await)
fut_val = z3.Function('fut_val', Val, Val)
fut_exc = z3.Function('fut_exc', Val, Val)


class FutureSym:
    """Futures with symbolic identity (taken out of a queue): result()/await yield fut_val(f) or raise fut_exc(f);
    cancel() is recorded in the ghost set `cancelled` (a sequence of futures)."""
    trusted = 'Future.result()/await returns the result or raises the exception the future was resolved with; cancel() never raises'

    def __init__(self, exc_class='BaseException'):
        self.exc_class = exc_class      # a class name or a tuple of class names

    def getattr(self, ex, st, base, attr, node):
        from .core import SymMethod
        if attr in ('result', 'cancel', 'exception', 'cancelled', 'done'):
            return [('ok', st, SymMethod(self, base, attr))]
        raise Unsupported(f'future.{attr}')

    def outcome(self, ex, st, f, node):
        outs = []
        s1 = st.fork().assume(fut_ok(f))
        if ex.feasible(s1):
            outs.append(('ok', s1, fut_val(f)))
        e = fut_exc(f)
        classes = self.exc_class if isinstance(self.exc_class, (tuple, list)) else (self.exc_class,)
        s2 = st.fork().assume(z3.Not(fut_ok(f)), z3.Or([V.isinst(e, c) for c in classes]), *V.cls_facts(e))
        if ex.feasible(s2):
            outs.append(('raise', s2, e))
        return outs

    def call(self, ex, st, recv, name, args, kwargs, node):
        if name == 'result':
            st = st.fork()
            st.ghost['#blocking'] = st.ghost.get('#blocking', ()) + ((node.lineno, 'future.result()', ()),)
            return self.outcome(ex, st, recv, node)
        if name == 'cancel':
            st = st.fork()
            st.ghost['cancelled'] = z3.Concat(st.ghost.get('cancelled', V.EMPTY), z3.Unit(recv))
            return [('ok', st, fresh('cancel_ret', z3.BoolSort()))]
        if name == 'exception':
            # Future.exception(): None for a result; the stored exception for a failure -- but a CANCELLED future does not return its CancelledError, it RAISES it
            # (as result() does).  A cancelled future is one whose outcome is (a subclass of) futures.CancelledError / asyncio.CancelledError.
            st = st.fork()
            st.ghost['#blocking'] = st.ghost.get('#blocking', ()) + ((node.lineno, 'future.exception()', ()),)
            outs = []
            for k, s, v in self.outcome(ex, st, recv, node):
                if k == 'ok':
                    outs.append(('ok', s, NONE))
                else:
                    canc = z3.Or(V.isinst(v, 'futures.CancelledError'), V.isinst(v, 'asyncio.CancelledError'))
                    s1, s2 = s.fork().assume(canc), s.fork().assume(z3.Not(canc))
                    if ex.feasible(s1):
                        outs.append(('raise', s1, v))
                    if ex.feasible(s2):
                        outs.append(('ok', s2, v))
            return outs
        raise Unsupported(f'future.{name}()')


class ThreadObj(Obj):
    """mpservice.threading.Thread handle created by the function under verification."""
    trusted = 'Thread: start() runs target(*args, **kwargs) in a new thread; join() returns after it has ended (mpservice Thread.join re-raises the target\'s exception: C12)'

    def __init__(self, ex, target, args, kwargs, name):
        super().__init__(ex, 'thread')
        self.target, self.args, self.kwargs, self.tname = target, args, kwargs, name

    def init(self, st):
        self.set(st, 'started', z3.BoolVal(False))
        self.set(st, 'joined', z3.BoolVal(False))
        return self

    def havoc(self, ex, st):
        pass

    def m_start(self, ex, st, args, kwargs, node):
        ex.oblige(st, f'line {node.lineno}: a thread is started at most once', z3.Not(self.get(st, 'started')))
        st = st.fork()
        self.set(st, 'started', z3.BoolVal(True))
        hook = getattr(ex.unit, 'on_thread_start', None)
        if hook:
            hook(ex, st, self, node)
        return [('ok', st, NONE)]

    def m_join(self, ex, st, args, kwargs, node):
        st = st.fork()
        hook = getattr(ex.unit, 'on_thread_join', None)
        if hook:
            r = hook(ex, st, self, node)
            if r is not None:
                return r
        self.set(st, 'joined', z3.BoolVal(True))
        st.ghost['#blocking'] = st.ghost.get('#blocking', ()) + ((node.lineno, 'join thread', ()),)
        return [('ok', st, NONE)]

    def m_is_alive(self, ex, st, args, kwargs, node):
        hook = getattr(ex.unit, 'on_is_alive', None)
        if hook:
            return hook(ex, st, self, node)
        return [('ok', st, fresh('alive', z3.BoolSort()))]


class ThreadCtor(Callable_):
    trusted = ThreadObj.trusted

    def invoke(self, ex, st, args, kwargs, node):
        target = kwargs.get('target')
        t = ThreadObj(ex, unbox_handle(ex, target) if target is not None else None, kwargs.get('args'), kwargs.get('kwargs'), kwargs.get('name'))
        st = st.fork()
        t.init(st)
        return [('ok', st, t)]


# ------------------------------------------------------------------ shared dict (ledger) and shared futures (E2)
Absent = z3.Const('ABSENT', Val)      # marks "no entry" in a map


class SharedMap(Obj):
    """A dict shared between roles: abstract state = (array key -> value|ABSENT, size).  Each operation is one atomic action
    (GIL); before every action the unit's hook `interfere(ex, st, obj, node)` applies what other roles may have done since
    this role last looked (rely).  Writes are counted in the ghost `writes`."""
    trusted = 'dict: len(), d[k]=v, d.pop(k), d.get(k), `in` are single atomic operations (GIL)'

    def init(self, st, arr=None, size=None):
        self.set(st, 'arr', arr if arr is not None else z3.K(Val, Absent))
        self.set(st, 'size', size if size is not None else z3.IntVal(0))
        return self

    def havoc(self, ex, st):
        pass        # shared state changes only through the unit's interference hook

    def arr(self, st):
        return self.get(st, 'arr')

    def size(self, st):
        return self.get(st, 'size')

    def _interfere(self, ex, st, node):
        hook = getattr(ex.unit, 'interfere', None)
        if hook:
            hook(ex, st, self, node)

    def length(self, ex, st, node):
        st = st.fork()
        self._interfere(ex, st, node)
        return [('ok', st, self.size(st))]

    def setitem(self, ex, st, idx, v, node):
        st = st.fork()
        self._interfere(ex, st, node)
        k = box(ex, idx)
        a, n = self.arr(st), self.size(st)
        bv = box(ex, v)
        st.assume(bv != Absent)
        self.set(st, 'size', z3.If(z3.Select(a, k) == Absent, n + 1, n))
        self.set(st, 'arr', z3.Store(a, k, bv))
        st.ghost['writes'] = st.ghost.get('writes', z3.IntVal(0)) + 1
        hook = getattr(ex.unit, 'after_map_write', None)
        if hook:
            hook(ex, st, self, 'set', k, bv, node)
        return [('ok', st, None)]

    def m_pop(self, ex, st, args, kwargs, node):
        st = st.fork()
        self._interfere(ex, st, node)
        k = box(ex, args[0])
        a, n = self.arr(st), self.size(st)
        outs = []
        s1 = st.fork().assume(z3.Select(a, k) != Absent)
        if ex.feasible(s1):
            self.set(s1, 'arr', z3.Store(a, k, Absent))
            self.set(s1, 'size', n - 1)
            s1.ghost['writes'] = s1.ghost.get('writes', z3.IntVal(0)) + 1
            hook = getattr(ex.unit, 'after_map_write', None)
            if hook:
                hook(ex, s1, self, 'pop', k, z3.Select(a, k), node)
            outs.append(('ok', s1, z3.Select(a, k)))
        s2 = st.fork().assume(z3.Select(a, k) == Absent)
        if ex.feasible(s2):
            if len(args) > 1:
                outs.append(('ok', s2, args[1]))
            else:
                outs.append(ex.raise_new(s2, 'KeyError'))
        return outs

    def delitem(self, ex, st, idx, node):
        outs = self.m_pop(ex, st, [idx], {}, node)
        return [(k, s, None if k == 'ok' else v) for k, s, v in outs]

    def m_get(self, ex, st, args, kwargs, node):
        st = st.fork()
        self._interfere(ex, st, node)
        k = box(ex, args[0])
        v = z3.Select(self.arr(st), k)
        default = box(ex, args[1]) if len(args) > 1 else NONE
        return [('ok', st, z3.If(v == Absent, default, v))]

    def getitem(self, ex, st, idx, node):
        st = st.fork()
        self._interfere(ex, st, node)
        k = box(ex, idx)
        v = z3.Select(self.arr(st), k)
        outs = []
        s1 = st.fork().assume(v != Absent)
        if ex.feasible(s1):
            outs.append(('ok', s1, v))
        s2 = st.fork().assume(v == Absent)
        if ex.feasible(s2):
            outs.append(ex.raise_new(s2, 'KeyError'))
        return outs

    def contains(self, ex, st, item):
        return z3.Select(self.arr(st), box(ex, item)) != Absent


PENDING, RUNNING, CANCELLED, FINISHED = (z3.IntVal(i) for i in range(4))


class SharedFuture(Obj):
    """concurrent.futures.Future shared between the resolving role and a caller who may cancel() it at any time.
    state in {PENDING, RUNNING, CANCELLED, FINISHED}; before every action of the verified role the other role may have
    moved PENDING -> CANCELLED (cancel() succeeds only on a pending future).  set_result/set_exception on a
    CANCELLED or FINISHED future raise InvalidStateError (CPython)."""
    trusted = 'concurrent.futures.Future state machine: cancel() succeeds only while PENDING; set_running_or_notify_cancel() returns False on a cancelled future, else moves to RUNNING; set_result/set_exception raise InvalidStateError on a cancelled/finished future'
    cls_name = 'Future'

    def __init__(self, ex, label='fut', other_may_cancel=True):
        super().__init__(ex, label)
        self.other_may_cancel = other_may_cancel

    def init(self, st, state=None):
        self.set(st, 'state', state if state is not None else PENDING)
        self.set(st, 'is_exc', z3.BoolVal(False))
        self.set(st, 'val', NONE)
        return self

    def havoc(self, ex, st):
        pass

    def state(self, st):
        return self.get(st, 'state')

    def _interfere(self, ex, st):
        if self.other_may_cancel:
            c = fresh('peer_cancelled', z3.BoolSort())
            self.set(st, 'state', z3.If(z3.And(c, self.state(st) == PENDING), CANCELLED, self.state(st)))

    def m_cancelled(self, ex, st, args, kwargs, node):
        st = st.fork()
        self._interfere(ex, st)
        seen = self.state(st) == CANCELLED
        st.ghost['cancelled_seen'] = st.ghost.get('cancelled_seen', ()) + (seen,)         # what each cancelled() call of this path answered
        return [('ok', st, seen)]

    def m_done(self, ex, st, args, kwargs, node):
        st = st.fork()
        self._interfere(ex, st)
        return [('ok', st, z3.Or(self.state(st) == CANCELLED, self.state(st) == FINISHED))]

    def m_set_running_or_notify_cancel(self, ex, st, args, kwargs, node):
        st = st.fork()
        self._interfere(ex, st)
        outs = []
        s1 = st.fork().assume(self.state(st) == CANCELLED)
        if ex.feasible(s1):
            outs.append(('ok', s1, z3.BoolVal(False)))
        s2 = st.fork().assume(self.state(st) == PENDING)
        if ex.feasible(s2):
            self.set(s2, 'state', RUNNING)
            outs.append(('ok', s2, z3.BoolVal(True)))
        s3 = st.fork().assume(z3.Or(self.state(st) == RUNNING, self.state(st) == FINISHED))
        if ex.feasible(s3):
            outs.append(ex.raise_new(s3, 'RuntimeError'))
        return outs

    def _set(self, ex, st, v, is_exc, node):
        st = st.fork()
        self._interfere(ex, st)
        outs = []
        s1 = st.fork().assume(z3.Or(self.state(st) == PENDING, self.state(st) == RUNNING))
        if ex.feasible(s1):
            self.set(s1, 'state', FINISHED)
            self.set(s1, 'is_exc', z3.BoolVal(is_exc))
            self.set(s1, 'val', box(ex, v))
            s1.ghost['resolved'] = s1.ghost.get('resolved', z3.IntVal(0)) + 1
            outs.append(('ok', s1, NONE))
        s2 = st.fork().assume(z3.Or(self.state(st) == CANCELLED, self.state(st) == FINISHED))
        if ex.feasible(s2):
            outs.append(ex.raise_new(s2, 'futures.InvalidStateError'))
        return outs

    def m_set_result(self, ex, st, args, kwargs, node):
        return self._set(ex, st, args[0], False, node)

    def m_set_exception(self, ex, st, args, kwargs, node):
        return self._set(ex, st, args[0], True, node)

    def m_cancel(self, ex, st, args, kwargs, node):
        st = st.fork()
        self._interfere(ex, st)
        ok = self.state(st) == PENDING
        self.set(st, 'state', z3.If(ok, CANCELLED, self.state(st)))
        return [('ok', st, z3.Or(ok, self.state(st) == CANCELLED))]

    def getattr(self, ex, st, name, node):
        if name == 'data':
            return [('ok', st, FutData())]
        return super().getattr(ex, st, name, node)

    def setattr(self, ex, st, name, v, node):
        if name == 'data':
            st = st.fork()
            st.ghost['fut_data_assigned'] = v          # what the code stored as fut.data (for the unit to inspect: the deadline)
            return [('ok', st, None)]
        return super().setattr(ex, st, name, v, node)


class FutData(Obj):
    """fut.data: timing bookkeeping dict (no property reads it except the deadline, which the unit supplies)."""

    def __init__(self):
        self.oid = -2

    def havoc(self, ex, st):
        pass

    def setitem(self, ex, st, idx, v, node):
        return [('ok', st, None)]

    def _iterate(self, ex, st, args, kwargs, node):
        # the dict is SHARED between the caller (which adds keys -- e.g. 't_cancelled' right after cancel()) and the gather thread: iterating over it while the other
        # side inserts raises RuntimeError("dictionary changed size during iteration")
        return [('ok', st, fresh('futdata_view')), ex.raise_new(st.fork(), 'RuntimeError')]
    m_items = m_keys = m_values = m_copy = _iterate

    def getitem(self, ex, st, idx, node):
        hook = getattr(ex.unit, 'fut_data', None)
        if hook:
            return [('ok', st, hook(ex, st, idx, node))]
        return [('ok', st, fresh('futdata', z3.RealSort()))]
