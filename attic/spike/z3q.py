from z3 import *
import time
Val = DeclareSort('Val'); SeqV = SeqSort(Val)
P,G,Q,P2,G2,Q2,sent,recv,out,seen = Consts('P G Q P2 G2 Q2 sent recv out seen', SeqV)
item, x, fut, z = Consts('item x fut z', Val)
def valid(name, hyps, goal, to=20000):
    t=time.time(); so=Solver(); so.set('timeout',to); so.add(hyps); so.add(Not(goal)); r=so.check()
    print(f'{name}: {"proved" if r==unsat else r} {time.time()-t:.3f}s'); 
    if r==sat: print('  model', so.model())
cap = Int('cap')
Inv = lambda P,G,Q: And(P==Concat(G,Q), Length(Q)<=cap)
# put (space available)
valid('put', [cap>0, Inv(P,G,Q), Length(Q)<cap, Q2==Concat(Q,Unit(item)), P2==Concat(P,Unit(item)), G2==G], Inv(P2,G2,Q2))
# get (non-empty): popleft
head = Q[0]
valid('get', [cap>0, Inv(P,G,Q), Length(Q)>0, z==Q[0], Q2==SubSeq(Q,1,Length(Q)-1), G2==Concat(G,Unit(z)), P2==P], And(Inv(P2,G2,Q2), z==P[Length(G)]))
# LIFO mutant: pop from right must FAIL the FIFO clause
valid('get-LIFO-mutant(expect sat)', [cap>0, Inv(P,G,Q), Length(Q)>0, z==Q[Length(Q)-1], Q2==SubSeq(Q,0,Length(Q)-1), G2==Concat(G,Unit(z)), P2==P], Inv(P2,G2,Q2))
# composition: consumer knows recv==G, out==omap(recv); feeder: P == zm(seen) ; at None: G == P  => out == omap(zm(seen))
omap = Function('omap', SeqV, SeqV); zm = Function('zm', SeqV, SeqV)
NONE = Const('NONE', Val)
valid('compose', [P==Concat(G,Q), P==Concat(zm(seen), Unit(NONE)), G==Concat(recv, Unit(NONE)), out==omap(recv), Length(Q)==0], out==omap(zm(seen)))
# prefix reasoning needed when Q nonempty: recv++[NONE] prefix of zm(seen)++[NONE] and NONE not in zm(seen) => recv==zm(seen)
valid('compose-prefix', [P==Concat(G,Q), P==Concat(zm(seen), Unit(NONE)), G==Concat(recv, Unit(NONE)), Not(Contains(zm(seen), Unit(NONE)))], recv==zm(seen))
