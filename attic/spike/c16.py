import asyncio
from mpservice.streamer import async_fifo_stream, fifo_stream
import concurrent.futures

async def agen(n):
    for i in range(n):
        yield i

def pre(x):
    if x % 3 == 1:
        raise ValueError(x)
    return x

async def afunc(x, loop):
    async def w(x):
        await asyncio.sleep(0.001)
        return x * 10
    return loop.create_task(w(x))

async def main():
    out = []
    loop = asyncio.get_running_loop()
    async for z in async_fifo_stream(agen(7), afunc, preprocessor=pre, return_x=True, return_exceptions=True, loop=loop):
        out.append(z)
    print('async', out)
    out = []
    def pre0(x):
        if x == 0: raise ValueError(x)
        return x
    try:
        async for z in async_fifo_stream(agen(3), afunc, preprocessor=pre0, return_x=True, return_exceptions=True, loop=loop):
            out.append(z)
    except BaseException as e:
        print('async first rejected ->', repr(e))
    print(out)

asyncio.run(main())

pool = concurrent.futures.ThreadPoolExecutor(2)
def sfunc(x):
    return pool.submit(lambda x: x*10, x)
print('sync', list(fifo_stream(range(7), sfunc, preprocessor=pre, return_x=True, return_exceptions=True)))
