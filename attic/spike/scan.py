import ast, sys, collections
targets = {
 'streamer/_streamer.py': ['Stream','Mapper','Filter','Header','Tailer','Grouper','Batcher','Unbatcher','EagerBatcher','Shuffler','Buffer','fifo_stream','async_fifo_stream','Parmapper','ParmapperAsync'],
 '_queues.py': ['SingleLane'],
 'streamer/_tee.py': ['Fork','tee'],
 'streamer/_streamer_async.py': ['SyncIter','AsyncIter','AsyncBuffer','AsyncParmapper','AsyncParmapperAsync'],
 'mpserver/_server.py': ['_enter_server','Server','AsyncServer'],
 'mpserver/_servlet.py': ['ProcessServlet','ThreadServlet','SequentialServlet','EnsembleServlet','SwitchServlet'],
 'mpserver/_worker.py': ['Worker'],
 'queue.py': ['ResponsiveQueue','IterableQueue'],
 'multiprocessing/context.py': ['SpawnProcess'],
 'threading/__init__.py': ['Thread','wait','as_completed'],
 'multiprocessing/__init__.py': ['wait','as_completed'],
 'multiprocessing/remote_exception.py': ['EnsembleError','is_remote_exception','get_remote_traceback','RemoteTraceback','_rebuild_exception','RemoteException'],
 'multiprocessing/server_process.py': ['Server','BaseProxy','RebuildProxy','managed','AutoProxy','MemoryBlock','MemoryBlockProxy'],
 'socket.py': ['encode','decode','write_record','read_record','SocketServer','SocketClient'],
 'pipe.py': ['_Pipe','Server','Client'],
 'concurrent/futures/__init__.py': ['ThreadPoolExecutor','ProcessPoolExecutor'],
}
stm = collections.Counter(); exprs = collections.Counter(); calls = collections.Counter()
nfun = 0; nlines=0
for f, names in targets.items():
    tree = ast.parse(open('/repo/src/mpservice/'+f).read())
    for node in tree.body:
        if getattr(node,'name',None) in names:
            for n in ast.walk(node):
                if isinstance(n,(ast.FunctionDef,ast.AsyncFunctionDef)):
                    nfun+=1; nlines += n.end_lineno-n.lineno+1
                if isinstance(n, ast.stmt): stm[type(n).__name__]+=1
                elif isinstance(n, ast.expr): exprs[type(n).__name__]+=1
                if isinstance(n, ast.Call):
                    calls[ast.unparse(n.func)] += 1
print('functions', nfun, 'lines', nlines)
print(stm.most_common()); print(exprs.most_common())
print(len(calls)); print(calls.most_common(400))
