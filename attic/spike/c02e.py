import time, faulthandler, gc
from mpservice.mpserver import Server, ThreadServlet, EnsembleServlet, Worker
faulthandler.dump_traceback_later(90, exit=True)
class A(Worker):
    def call(self, x):
        if x < 0: raise ValueError(x)
        return ('A', x)
class B(Worker):
    def call(self, x):
        if x < 0: time.sleep(2.0)      # slow member still working on the request that A failed fast
        return ('B', x)
server = Server(EnsembleServlet(ThreadServlet(A), ThreadServlet(B, num_threads=4), fail_fast=True), capacity=64)
ids = []
orig = server._enqueue
def spy(x, timeout, backpressure):
    fut = orig(x, timeout, backpressure); ids.append(id(fut)); return fut
server._enqueue = spy
bad = []
with server:
    try:
        server.call(-5, timeout=5)
    except Exception:
        pass
    failed_uid = ids[-1]
    gc.collect()
    t0 = time.perf_counter(); held = []
    # allocate requests (keeping their futures pending is not possible through call(); use _enqueue directly and keep them)
    x = 500
    while time.perf_counter() - t0 < 1.5:
        fut = server._enqueue(x, 10, True)
        if id(fut) == failed_uid:
            print('uid of the fail-fast request recycled for request', x, 'after', len(ids), 'requests')
            y = fut.result(10)
            print('request', x, 'received', y)
            if y != [('A', x), ('B', x)]: bad.append((x, y))
            break
        held.append(fut)               # keep it alive so its id is not handed out again
        if len(held) > 50:
            for f in held: f.result(10)
            held.clear(); gc.collect()
        x += 1
    for f in held: f.result(10)
print('cross-talk:', bad)
