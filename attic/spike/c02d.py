import time, faulthandler
from mpservice.mpserver import Server, ThreadServlet, EnsembleServlet, Worker
import mpservice.mpserver._server as S
faulthandler.dump_traceback_later(60, exit=True)
class A(Worker):
    def call(self, x):
        if x < 0: raise ValueError(x)
        return ('A', x)
class B(Worker):
    def call(self, x):
        if x < 0: time.sleep(0.5)
        return ('B', x)
server = Server(EnsembleServlet(ThreadServlet(A), ThreadServlet(B), fail_fast=True), capacity=64)
bad = []; ids = []
orig = server._enqueue
def spy(x, timeout, backpressure):
    fut = orig(x, timeout, backpressure); ids.append(id(fut)); return fut
server._enqueue = spy
with server:
    for rnd in range(10):
        try:
            server.call(-(rnd + 1), timeout=5)
        except Exception:
            pass
        import gc; gc.collect()
        failed_uid = ids[-1]
        for k in range(3):
            x = 1000 * (rnd + 1) + k
            try: y = server.call(x, timeout=5)
            except Exception as e: y = repr(e)
            if ids[-1] == failed_uid: print('uid recycled for request', x)
            if y != [('A', x), ('B', x)]: bad.append((x, y))
        time.sleep(0.6)
print('distinct ids', len(set(ids)), 'of', len(ids)); print('cross-talk:', bad[:4], len(bad))
