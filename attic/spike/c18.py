import asyncio, time, faulthandler
from mpservice.multiprocessing import MP_SPAWN_CTX
import mpservice.socket as ms
from mpservice.socket import SocketApplication, SocketClient, make_server
faulthandler.dump_traceback_later(30, exit=True)

def run_my_server():
    async def double(data):
        return data * 2
    app = SocketApplication()
    app.add_route('/', double)
    server = make_server(app, path='/tmp/sock_spike')
    asyncio.run(server.serve())

if __name__ == '__main__':
    server = MP_SPAWN_CTX.Process(target=run_my_server)
    server.start()
    orig = ms.write_record
    async def slow_write_record(writer, request_id, data, *, encoder='pickle'):
        await orig(writer, request_id, data, encoder=encoder)
        await asyncio.sleep(0.05)   # drain() returning late: data is already on the wire
    ms.write_record = slow_write_record
    with SocketClient(path='/tmp/sock_spike', num_connections=1) as client:
        try:
            print('resp', client.request('/', 23, response_timeout=3))
        except BaseException as e:
            print('request failed:', repr(e))
        ms.write_record = orig
        try:
            print('resp2', client.request('/', 5, response_timeout=3))
        except BaseException as e:
            print('request2 failed:', repr(e))
        try:
            client.request('/shutdown', response_timeout=0)
        except BaseException as e:
            print(repr(e))
    server.join(5)
    if server.is_alive(): server.kill()
