import time, logging, threading
import mpservice.mpserver._server as S
from mpservice.mpserver import Server, ThreadServlet, Worker
logging.basicConfig(level=logging.WARNING)
class W(Worker):
    def call(self, x): return x * 2
class SlowInsert(dict):
    slow = False
    def __setitem__(self, k, v):
        if self.slow:
            time.sleep(0.2)      # enqueuing thread preempted between `_input_buffer.put` and `pipeline[uid] = fut`
        super().__setitem__(k, v)
server = Server(ThreadServlet(W), capacity=8)
server._uid_to_futures = SlowInsert()      # before __enter__, so the gather thread sees the same object
with server:
    print('warm', server.call(1, timeout=2))
    server._uid_to_futures.slow = True
    try:
        print(server.call(21, timeout=2))
    except Exception as e:
        print('call failed:', repr(e), 'backlog now', server.backlog)
