"""Throw-away E2 spike: Server._enqueue (real source) under rely/guarantee; expect the capacity
obligation to FAIL on the pinned tree (if-not-while) and to pass on an in-memory `while` variant."""
import ast, sys, z3, itertools, textwrap
sys.argv = sys.argv[:1]
import proto as P
from proto import *

class Ledger(Model):
    """dict uid->future. Shared. Abstract view here: its size n (C06 only needs the size)."""
    pass

class CondM(Model):
    pass

class E2(Exec):
    """adds: with <cond>, len(ledger), ledger[k]=v, cond.wait, interference by havoc."""
    def interfere(self, st, why):
        st = st.fork()
        n0 = st.ghost['n']; n1 = fresh('n', z3.IntSort())
        if st.ghost['held']:
            st.assume(z3.And(n1 <= n0, n1 >= 0))          # R_{L}: only the gather thread (no lock) acts: ledger shrinks
        else:
            st.assume(z3.And(n1 >= 0, n1 <= st.ghost['cap']))   # R_{}: anything that keeps Inv
        st.ghost['n'] = n1
        st.trace.append(f'~{why}')
        return st
    def stmt(self, n, st):
        if isinstance(n, ast.With):
            item = n.items[0].context_expr
            (k, s, c), = self.ev(item, st)
            assert isinstance(c, CondM)
            s = s.fork(); s.ghost['held'] = True
            outs = []
            for k2, s2, p in self.block(n.body, s):
                s2 = s2.fork(); s2.ghost['held'] = False      # released on every exit kind
                outs.append((k2, s2, p))
            return outs
        if isinstance(n, ast.Assign) and isinstance(n.targets[0], ast.Subscript):
            tgt = n.targets[0]
            if isinstance(tgt.value, ast.Attribute) and tgt.value.attr == 'data':
                return [('normal', st, None)]                  # fut.data['t1'] = ...  (bookkeeping, dropped in this spike)
            (k, s, base), = self.ev(tgt.value, st)
            if isinstance(base, Ledger):
                s = self.interfere(s, 'before ledger insert')
                s.ghost['n'] = s.ghost['n'] + 1               # uid fresh (C02's obligation, assumed here)
                s.ghost['writes'] = s.ghost['writes'] + 1
                oblige(f'line {n.lineno}: ledger insert keeps |ledger| <= capacity', s, s.ghost['n'] <= s.ghost['cap'])
                oblige(f'line {n.lineno}: ledger insert happens under the condition lock', s, z3.BoolVal(bool(s.ghost['held'])))
                return [('normal', s, None)]
            return [('normal', st, None)]                      # fut.data['t1'] = ...  (bookkeeping, dropped in this spike)
        if isinstance(n, ast.Assign) and isinstance(n.targets[0], ast.Attribute) and not (isinstance(n.targets[0].value, ast.Name) and n.targets[0].value.id == 'self'):
            return [('normal', st, None)]                      # fut.data = {...}
        return super().stmt(n, st)
    def ev(self, e, st):
        if isinstance(e, ast.Call) and isinstance(e.func, ast.Name) and e.func.id == 'len':
            (k, s, v), = self.ev(e.args[0], st)
            if isinstance(v, Ledger):
                s = self.interfere(s, 'before len(ledger)')
                return [('ok', s, s.ghost['n'])]
        if isinstance(e, ast.Call) and isinstance(e.func, ast.Name) and e.func.id in ('perf_counter',):
            return [('ok', st, fresh('now', z3.RealSort()))]
        if isinstance(e, ast.Call) and isinstance(e.func, ast.Name) and e.func.id == 'id':
            return [('ok', st, fresh('uid', Val))]
        if isinstance(e, ast.Call) and ast.unparse(e.func) == 'concurrent.futures.Future':
            return [('ok', st, fresh('fut', Val))]
        if isinstance(e, ast.Call) and isinstance(e.func, ast.Name) and e.func.id == 'ServerBacklogFull':
            outs = []
            for k, s, args in self.evargs(e.args, st):
                ex = fresh('exc_full', Val); s = s.fork().assume(cls_of(ex) == C('ServerBacklogFull')); outs.append(('ok', s, ex))
            return outs
        if isinstance(e, ast.Call) and isinstance(e.func, ast.Attribute) and e.func.attr == 'wait':
            (k, s, c), = self.ev(e.func.value, st)
            if isinstance(c, CondM):
                s = s.fork(); s.ghost['held'] = False; s.ghost['waits'] = s.ghost['waits'] + 1
                s = self.interfere(s, 'during Condition.wait (lock released)')
                s.ghost['held'] = True
                return [('ok', s, fresh('notified', z3.BoolSort()))]
        if isinstance(e, ast.Call) and isinstance(e.func, ast.Attribute) and ast.unparse(e.func) == 'self._input_buffer.put':
            s = st.fork(); s.ghost['writes'] = s.ghost['writes'] + 1
            return [('ok', s, NONE)]
        if isinstance(e, ast.BinOp):
            return [('ok', st, fresh('arith', z3.RealSort()))]
        if isinstance(e, ast.Dict):
            return [('ok', st, fresh('dict', Val))]
        if isinstance(e, ast.Tuple):
            return [('ok', st, fresh('tuple', Val))]
        return super().ev(e, st)

def run(fn, title):
    cap = z3.Int('cap'); n = z3.Int('n0'); bp = z3.Bool('backpressure')
    st = St(); st.env.update(self='SELF', x=fresh('x', Val), timeout=z3.Real('timeout'), backpressure=bp)
    led = Ledger()
    st.heap[('self', '_uid_to_futures')] = led; st.heap[('self', '_capacity')] = cap
    st.heap[('self', '_pipeline_notfull')] = CondM(); st.heap[('self', '_input_buffer')] = Model()
    st.ghost.update(n=n, cap=cap, held=False, writes=z3.IntVal(0), waits=z3.IntVal(0))
    st.assume(z3.And(cap > 0, n >= 0, n <= cap))
    CLASSES.setdefault('ServerBacklogFull', z3.Const('C_ServerBacklogFull', Cls))
    spec = {'loops': {0: {'inv': lambda s: z3.BoolVal(True), 'kind': 'plain'}}}
    ex = E2(fn, spec)
    # plain while-loop support for the repaired variant: invariant True, havoc nothing but shared state (already havocked at each access)
    def whileloop(nd, s):
        outs = []
        for k, s1, c in ex.ev(nd.test, s):
            c = ex.truth(c)
            s_exit = s1.fork().assume(z3.Not(c)); outs.append(('normal', s_exit, None))
            s_body = s1.fork().assume(c)
            for k2, s2, p in ex.block(nd.body, s_body):
                if k2 in ('normal', 'continue'): pass          # back edge: invariant True; shared state re-read next time
                elif k2 == 'break': outs.append(('normal', s2, None))
                else: outs.append((k2, s2, p))
        return outs
    ex.whileloop = whileloop
    for k, s, p in ex.block(fn.body, st):
        if k == 'raise':
            oblige('exit by ServerBacklogFull: no shared write was performed ("leaves no trace")', s, s.ghost['writes'] == 0)
            oblige('exit by ServerBacklogFull with backpressure: no wait on the path ("at once")', s, z3.Implies(bp, s.ghost['waits'] == 0))
        else:
            oblige('normal exit: exactly the two writes (input buffer, ledger)', s, s.ghost['writes'] == 2)
    return discharge(title)

src = open(SRC + 'mpserver/_server.py').read()
fn = load('mpserver/_server.py', 'Server._enqueue')
a = run(fn, 'Server._enqueue, pinned source')

# in-memory repaired variant (what the fix: commit would do): `if` -> `while` around the wait
seg = ast.get_source_segment(src, fn)
fixed = seg.replace('if len(pipeline) >= self._capacity:', 'while len(pipeline) >= self._capacity:')
assert fixed != seg
fn2 = ast.parse(textwrap.dedent(fixed)).body[0]
b = run(fn2, 'Server._enqueue, `while` variant (in memory)')
print('pinned proved:', a, '| while-variant proved:', b)
