import time, faulthandler, threading, multiprocessing
from mpservice.mpserver import Server, ProcessServlet, Worker
faulthandler.dump_traceback_later(25, exit=True)
class Slow(Worker):
    def call(self, x):
        time.sleep(0.05)
        return len(x)
if __name__ == '__main__':
    server = Server(ProcessServlet(Slow), capacity=256)
    with server:
        data = ('x' * 1000 for _ in range(200))
        for k, y in enumerate(server.stream(data)):
            if k == 2:
                break          # abandon the stream: ~197 inputs of 1 kB already accepted
        print('leaving context, backlog', server.backlog)
    print('exited ok; threads', [t.name for t in threading.enumerate()], multiprocessing.active_children())
