import asyncio, faulthandler, threading
from mpservice.streamer._streamer_async import SyncIter
faulthandler.dump_traceback_later(8, exit=True)
async def agen():
    for i in range(100):
        yield i
for x in SyncIter(agen()):
    if x == 3:
        import time; time.sleep(0.5)
        break
print('closed ok', threading.enumerate())
