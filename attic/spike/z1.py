# Spike: can z3 discharge snoc-style sequence VCs for Batcher / Tailer / Mapper quickly?
from z3 import *
import time
Val = DeclareSort('Val')
SeqV = SeqSort(Val)
ListV = Function('ListV', SeqV, Val)
unlist = Function('unlist', Val, SeqV)
sflatten = Function('sflatten', SeqV, SeqV)
allfull = Function('allfull', SeqV, IntSort(), BoolSort())
s = Const('s', SeqV); b = Const('b', SeqV); v=Const('v', Val); n=Int('n')
AX = [
  ForAll([b], unlist(ListV(b)) == b),
  sflatten(Empty(SeqV)) == Empty(SeqV),
  ForAll([s, v], sflatten(Concat(s, Unit(v))) == Concat(sflatten(s), unlist(v)), patterns=[sflatten(Concat(s, Unit(v)))]),
  ForAll([n], allfull(Empty(SeqV), n)),
  ForAll([s, v, n], allfull(Concat(s, Unit(v)), n) == And(allfull(s, n), Length(unlist(v)) == n), patterns=[allfull(Concat(s, Unit(v)), n)]),
]
def valid(name, hyps, goal):
    t=time.time()
    so = Solver(); so.set('timeout', 20000)
    so.add(AX); so.add(hyps); so.add(Not(goal))
    r = so.check()
    print(f'{name}: {"proved" if r==unsat else r} {time.time()-t:.2f}s')
    if r==sat: print(so.model())

# Batcher loop body: inv(out,batch,seen); x fresh; seen1 = seen++[x]; batch1 = batch++[x];
out, batch, seen = Consts('out batch seen', SeqV); x = Const('x', Val); bs = Int('bs')
inv = lambda out,batch,seen: And(allfull(out,bs), Concat(sflatten(out), batch)==seen, Length(batch) < bs, Length(batch)>=0)
seen1 = Concat(seen, Unit(x)); batch1 = Concat(batch, Unit(x))
# branch: len(batch1)==bs -> yield batch1; batch=[]
out1 = Concat(out, Unit(ListV(batch1)))
valid('batcher-full-branch', [bs>0, inv(out,batch,seen), Length(batch1)==bs], inv(out1, Empty(SeqV), seen1))
valid('batcher-else-branch', [bs>0, inv(out,batch,seen), Length(batch1)!=bs], inv(out, batch1, seen1))
# exit: if batch: yield
valid('batcher-exit-nonempty', [bs>0, inv(out,batch,seen), Length(batch)>0],
      And(sflatten(Concat(out, Unit(ListV(batch))))==seen, allfull(out,bs), Length(batch)>=1, Length(batch)<=bs))
valid('batcher-exit-empty', [bs>0, inv(out,batch,seen), Length(batch)==0], And(sflatten(out)==seen, allfull(out,bs)))
# sanity: a wrong goal must fail
valid('batcher-WRONG (expect sat)', [bs>0, inv(out,batch,seen), Length(batch1)!=bs], inv(out, batch, seen1))

# Tailer: deque(maxlen=n): data' = (data if len<n else data[1:]) ++ [x];  spec lastn(seen,n) = extract(seen, len-min(n,len), min)
data = Const('data', SeqV)
def lastn(s, n): 
    k = If(Length(s) < n, Length(s), n)
    return SubSeq(s, Length(s)-k, k)
data1 = Concat(If(Length(data) < n, data, SubSeq(data, 1, Length(data)-1)), Unit(x))
valid('tailer-step', [n>0, data == lastn(seen, n)], data1 == lastn(seen1, n))

# Mapper
smap = Function('smap', SeqV, SeqV); f = Function('f', Val, Val)
AX += [smap(Empty(SeqV))==Empty(SeqV), ForAll([s,v], smap(Concat(s,Unit(v)))==Concat(smap(s), Unit(f(v))), patterns=[smap(Concat(s,Unit(v)))])]
valid('mapper-step', [out == smap(seen)], Concat(out, Unit(f(x))) == smap(seen1))
valid('mapper-lazy', [Length(out) == Length(seen)], Length(seen1) - Length(out) <= 1)
