import sys, threading, time, faulthandler
from mpservice.streamer import Stream
faulthandler.dump_traceback_later(8, exit=True)
n = int(sys.argv[1])
def src():
    for i in range(100):
        yield i
s = Stream(src()).buffer(n)
for x in s:
    if x == 3:
        break
it = None
import gc; gc.collect()
print('done buffer', n, threading.enumerate())
