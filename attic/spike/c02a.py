import time, logging
from mpservice.mpserver import Server, ThreadServlet, Worker
logging.basicConfig(level=logging.WARNING)
class W(Worker):
    def call(self, x): return x * 2
class SlowInsert(dict):
    def __setitem__(self, k, v):
        time.sleep(0.2)          # the enqueuing thread is preempted between queue.put and ledger insert
        super().__setitem__(k, v)
server = Server(ThreadServlet(W), capacity=8)
with server:
    server._uid_to_futures = SlowInsert()
    # gather thread captured the old dict object in a local; rebind it there too is impossible -> instead mutate in place
