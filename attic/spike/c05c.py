import threading, queue, faulthandler
from mpservice.queue import IterableQueue
from mpservice.streamer import Stream
from mpservice._common import StopRequested
faulthandler.dump_traceback_later(8, exit=True)
to_stop = threading.Event()
q = IterableQueue(queue.Queue(10), to_stop=to_stop)
q._q.wait_interval_seconds = 0.2
q.put(1); q.put(2)
def later():
    import time; time.sleep(0.5); to_stop.set()
threading.Thread(target=later).start()
try:
    for x in Stream(q).buffer(5):
        print('got', x)
    print('ended normally')
except BaseException as e:
    print('consumer got', repr(e))
