from z3 import *
import time
Val = DeclareSort('Val'); SeqV = SeqSort(Val)
ListV = Function('ListV', SeqV, Val); unlist = Function('unlist', Val, SeqV)
sflatten = Function('sflatten', SeqV, SeqV); allfull = Function('allfull', SeqV, IntSort(), BoolSort())
out, batch, seen = Consts('out batch seen', SeqV); x = Const('x', Val); bs = Int('bs')
inv = lambda out,batch,seen: And(allfull(out,bs), Concat(sflatten(out), batch)==seen, Length(batch) < bs)
seen1 = Concat(seen, Unit(x)); batch1 = Concat(batch, Unit(x))
so = Solver(); so.set('timeout', 20000)
so.add(bs>0, inv(out,batch,seen), Length(batch1)!=bs, Not(inv(out, batch, seen1)))
t=time.time(); r=so.check(); print(r, time.time()-t)
if r==sat:
    m=so.model(); print(m)
# full-branch QF with manual instances
out1 = Concat(out, Unit(ListV(batch1)))
so = Solver(); so.set('timeout', 20000)
inst = [unlist(ListV(batch1))==batch1,
        sflatten(out1)==Concat(sflatten(out), unlist(ListV(batch1))),
        allfull(out1,bs)==And(allfull(out,bs), Length(unlist(ListV(batch1)))==bs),
        sflatten(Empty(SeqV))==Empty(SeqV)]
so.add(inst); so.add(bs>0, inv(out,batch,seen), Length(batch1)==bs, Not(inv(out1, Empty(SeqV), seen1)))
t=time.time(); r=so.check(); print('QF full-branch', r, time.time()-t)
