import threading, time, faulthandler, multiprocessing
from mpservice.mpserver import Server, ThreadServlet, ProcessServlet, SequentialServlet, Worker
faulthandler.dump_traceback_later(25, exit=True)

class Good(Worker):
    def call(self, x): return x
class Bad(Worker):
    def __init__(self, **kw):
        super().__init__(**kw)
        if self.worker_index == 1:
            raise ValueError('init failed')
    def call(self, x): return x

def main():
    server = Server(SequentialServlet(ThreadServlet(Good), ThreadServlet(Bad, num_threads=2)))
    try:
        with server:
            print('entered?!')
    except Exception as e:
        print('enter raised', repr(e))
    time.sleep(0.5)
    print('threads alive:', [t.name for t in threading.enumerate()])
    print('procs alive:', multiprocessing.active_children())
main()
