"""Throw-away feasibility prototype of pyvc E1 (NOT framework code; lives in /tmp only).

Goal: check that a small AST->z3 symbolic executor over the REAL source can
 (1) prove Batcher.__iter__ against a snoc-style stream contract,
 (2) fail SpawnProcess._collect_result's "future resolved on every exit" on the pinned tree,
 (3) fail async_fifo_stream.feed's pairing invariant (stale/unbound `t`) on the pinned tree.
"""
import ast, sys, time, copy, itertools
import z3

SRC = '/repo/src/mpservice/'

# ---------------------------------------------------------------- sorts
Val = z3.DeclareSort('Val')
SeqV = z3.SeqSort(Val)
Cls = z3.DeclareSort('Cls')
cls_of = z3.Function('cls_of', Val, Cls)
sub = z3.Function('sub', Cls, Cls, z3.BoolSort())
listv = z3.Function('listv', SeqV, Val)
unlist = z3.Function('unlist', Val, SeqV)
pairv = z3.Function('pairv', Val, Val, Val)
fst = z3.Function('fst', Val, Val)
snd = z3.Function('snd', Val, Val)
NONE = z3.Const('NONE', Val)
sflatten = z3.Function('sflatten', SeqV, SeqV)
allfull = z3.Function('allfull', SeqV, z3.IntSort(), z3.BoolSort())

CLASSES = {}
def C(name):
    if name not in CLASSES:
        CLASSES[name] = z3.Const('C_' + name, Cls)
    return CLASSES[name]
SUBS = [('Exception', 'BaseException'), ('EOFError', 'Exception'), ('OSError', 'Exception'),
        ('StopRequested', 'BaseException'), ('ValueError', 'Exception')]
NOTSUB = [('StopRequested', 'Exception'), ('BaseException', 'Exception'), ('Exception', 'EOFError'),
          ('OSError', 'EOFError'), ('ValueError', 'EOFError'), ('StopRequested', 'EOFError')]
def class_axioms():
    ax = []
    for a, b in SUBS: ax.append(sub(C(a), C(b)))
    for a, b in NOTSUB: ax.append(z3.Not(sub(C(a), C(b))))
    for n in list(CLASSES): ax.append(sub(C(n), C(n)))
    # transitivity instances over known classes
    ns = list(CLASSES)
    for a in ns:
        for b in ns:
            for c in ns:
                ax.append(z3.Implies(z3.And(sub(C(a), C(b)), sub(C(b), C(c))), sub(C(a), C(c))))
    return ax

fresh_ctr = itertools.count()
def fresh(prefix, sort):
    return z3.Const(f'{prefix}!{next(fresh_ctr)}', sort)

class Unsupported(Exception):
    pass

class Unbound:            # marker for "local never assigned on this path"
    def __repr__(self): return '<unbound>'
UNBOUND = Unbound()

# ---------------------------------------------------------------- state
class St:
    def __init__(self):
        self.env = {}      # locals
        self.heap = {}     # ('self','field') -> value ; modelled objects are python objects
        self.ghost = {}
        self.pc = []
        self.inst = []     # axiom instances
        self.trace = []
    def fork(self):
        s = St(); s.env = dict(self.env); s.heap = dict(self.heap); s.ghost = dict(self.ghost)
        s.pc = list(self.pc); s.inst = list(self.inst); s.trace = list(self.trace)
        return s
    def assume(self, c): self.pc.append(c); return self

OBLIGATIONS = []   # (name, hyps, goal)
def oblige(name, st, goal):
    OBLIGATIONS.append((name, list(st.pc) + list(st.inst), goal, list(st.trace)))

def feasible(st):
    s = z3.Solver(); s.set('timeout', 2000); s.add(class_axioms()); s.add(st.pc); s.add(st.inst)
    return s.check() != z3.unsat

def snoc(st, seq, v):
    """seq ++ [v] plus the snoc axiom instances for the spec functions."""
    new = z3.Concat(seq, z3.Unit(v))
    st.inst.append(sflatten(new) == z3.Concat(sflatten(seq), unlist(v)))
    n = st.ghost.get('_allfull_n')
    if n is not None:
        st.inst.append(allfull(new, n) == z3.And(allfull(seq, n), z3.Length(unlist(v)) == n))
    return new

# ---------------------------------------------------------------- models of library objects
class Model:
    def call(self, ex, st, meth, args, kwargs): raise Unsupported(f'{type(self).__name__}.{meth}')
    def getattr(self, ex, st, name): raise Unsupported(f'{type(self).__name__}.{name}')

class Source(Model):
    """An iterable whose elements are appended to ghost `seen`; may raise if may_raise."""
    def __init__(self, may_raise=None): self.may_raise = may_raise
    def pull(self, ex, st):
        outs = []
        s1 = st.fork(); s1.ghost['src_done'] = z3.BoolVal(True); outs.append(('stop', s1, None))
        s2 = st.fork(); x = fresh('x', Val); s2.ghost['seen'] = snoc(s2, s2.ghost['seen'], x); outs.append(('item', s2, x))
        if self.may_raise:
            s3 = st.fork(); e = fresh('e_src', Val); s3.assume(sub(cls_of(e), C(self.may_raise))); outs.append(('raise', s3, e))
        return outs

class PipeConn(Model):     # multiprocessing Connection (reader side)
    def call(self, ex, st, meth, args, kwargs):
        if meth == 'recv':
            s1 = st.fork(); v = fresh('recv', Val); s1.ghost['recvs'] = s1.ghost['recvs'] + 1
            s2 = st.fork(); e = fresh('eof', Val); s2.assume(cls_of(e) == C('EOFError'))
            return [('ok', s1, v), ('raise', s2, e)]
        if meth == 'close':
            return [('ok', st, NONE)]
        return super().call(ex, st, meth, args, kwargs)

class FutureM(Model):
    def call(self, ex, st, meth, args, kwargs):
        if meth in ('set_result', 'set_exception'):
            st = st.fork()
            oblige(f'future.{meth}: not already resolved', st, z3.Not(st.ghost['fut_done']))
            st.ghost['fut_done'] = z3.BoolVal(True)
            st.ghost['fut_kind'] = z3.StringVal(meth)
            st.ghost['fut_val'] = args[0]
            return [('ok', st, NONE)]
        return super().call(ex, st, meth, args, kwargs)

class LogQueue(Model):
    def call(self, ex, st, meth, args, kwargs):
        if meth == 'put':
            st = st.fork(); st.ghost['log_none_put'] = z3.BoolVal(True); return [('ok', st, NONE)]
        return super().call(ex, st, meth, args, kwargs)

class HistQueue(Model):   # asyncio.Queue / SingleLane seen from the single writer
    def call(self, ex, st, meth, args, kwargs):
        if meth == 'put':
            st = st.fork(); st.ghost['P'] = z3.Concat(st.ghost['P'], z3.Unit(args[0])); return [('ok', st, NONE)]
        return super().call(ex, st, meth, args, kwargs)

class EventM(Model):
    def call(self, ex, st, meth, args, kwargs):
        if meth == 'is_set':
            return [('ok', st, fresh('is_set', z3.BoolSort()))]
        return super().call(ex, st, meth, args, kwargs)

class Callable1(Model):
    """uninterpreted user function of one Val -> either returns f(x) or raises exc_f(x) (decided by ok_f(x))."""
    def __init__(self, name, raises='Exception'):
        self.f = z3.Function(name, Val, Val); self.ok = z3.Function(name + '_ok', Val, z3.BoolSort())
        self.exc = z3.Function(name + '_exc', Val, Val); self.raises = raises
    def invoke(self, ex, st, args, kwargs):
        x = args[0]
        s1 = st.fork().assume(self.ok(x))
        s2 = st.fork().assume(z3.Not(self.ok(x))); e = self.exc(x); s2.assume(sub(cls_of(e), C(self.raises)))
        return [('ok', s1, self.f(x)), ('raise', s2, e)]

class OpaqueStr(Model):
    def invoke(self, ex, st, args, kwargs):
        return [('ok', st, fresh('str', z3.StringSort()))]

class AsyncFutureCtor(Model):   # asyncio.Future()
    def invoke(self, ex, st, args, kwargs):
        f = fresh('afut', Val)
        return [('ok', st, PreFailed(f))]

class PreFailed(Model):          # a fresh future object, python-level handle
    def __init__(self, z): self.z = z
    def call(self, ex, st, meth, args, kwargs):
        if meth == 'set_exception':
            st = st.fork(); st.inst.append(outcome_err(self.z) == args[0]); st.inst.append(is_err(self.z)); return [('ok', st, NONE)]
        return super().call(ex, st, meth, args, kwargs)
outcome_err = z3.Function('outcome_err', Val, Val)
is_err = z3.Function('is_err', Val, z3.BoolSort())
task_of = z3.Function('task_of', Val, Val)     # func(xx) -> task whose outcome is F(xx)

# ---------------------------------------------------------------- executor
class Exec:
    def __init__(self, fn, spec):
        self.fn = fn; self.spec = spec; self.loop_ord = itertools.count()
        self.loop_index = {id(n): i for i, n in enumerate(x for x in ast.walk(fn) if isinstance(x, (ast.For, ast.AsyncFor, ast.While)))}

    # ----- expressions: return list of (kind, st, value) with kind in ok/raise
    def ev(self, e, st):
        if isinstance(e, ast.Constant):
            v = e.value
            if v is None: return [('ok', st, NONE)]
            if isinstance(v, bool): return [('ok', st, z3.BoolVal(v))]
            if isinstance(v, int): return [('ok', st, z3.IntVal(v))]
            if isinstance(v, float): return [('ok', st, z3.RealVal(v))]
            if isinstance(v, str): return [('ok', st, z3.StringVal(v))]
            raise Unsupported(ast.dump(e))
        if isinstance(e, ast.Name):
            if e.id in st.env:
                v = st.env[e.id]
                if v is UNBOUND:
                    oblige(f'line {e.lineno}: local `{e.id}` is bound when read', st, z3.BoolVal(False))
                    return []   # path dies (would raise UnboundLocalError)
                return [('ok', st, v)]
            if e.id in self.spec.get('globals', {}): return [('ok', st, self.spec['globals'][e.id])]
            raise Unsupported(f'name {e.id}')
        if isinstance(e, ast.Attribute):
            outs = []
            for k, s, base in self.ev(e.value, st):
                if k != 'ok': outs.append((k, s, base)); continue
                if isinstance(base, str) and base == 'SELF':
                    key = ('self', e.attr)
                    if key not in s.heap: raise Unsupported(f'self.{e.attr}')
                    v = s.heap[key]
                    if callable(v) and not isinstance(v, Model): v = v(s)   # volatile field
                    outs.append(('ok', s, v))
                elif isinstance(base, Model):
                    outs.append(('ok', s, ('BOUND', base, e.attr)))
                elif isinstance(base, tuple) and base[0] == 'MODULE':
                    outs.append(('ok', s, ('MODULE', base[1] + '.' + e.attr)))
                else:
                    raise Unsupported(f'attr {ast.unparse(e)}')
            return outs
        if isinstance(e, ast.Await):
            return self.ev(e.value, st)
        if isinstance(e, ast.Tuple):
            if len(e.elts) == 2:
                outs = []
                for k, s, a in self.ev(e.elts[0], st):
                    if k != 'ok': outs.append((k, s, a)); continue
                    for k2, s2, b in self.ev(e.elts[1], s):
                        if k2 != 'ok': outs.append((k2, s2, b)); continue
                        a_, b_ = self.as_val(a), self.as_val(b)
                        p = pairv(a_, b_); s2 = s2.fork(); s2.inst += [fst(p) == a_, snd(p) == b_]
                        outs.append(('ok', s2, p))
                return outs
            raise Unsupported('tuple arity')
        if isinstance(e, ast.List) and not e.elts:
            return [('ok', st, z3.Empty(SeqV))]
        if isinstance(e, ast.UnaryOp) and isinstance(e.op, ast.USub):
            return [(k, s, (-v if k == 'ok' else v)) for k, s, v in self.ev(e.operand, st)]
        if isinstance(e, ast.UnaryOp) and isinstance(e.op, ast.Not):
            return [(k, s, (z3.Not(self.truth(v)) if k == 'ok' else v)) for k, s, v in self.ev(e.operand, st)]
        if isinstance(e, ast.Compare) and len(e.ops) == 1:
            outs = []
            for k, s, a in self.ev(e.left, st):
                if k != 'ok': outs.append((k, s, a)); continue
                for k2, s2, b in self.ev(e.comparators[0], s):
                    if k2 != 'ok': outs.append((k2, s2, b)); continue
                    op = e.ops[0]
                    if isinstance(op, (ast.Is, ast.Eq)): r = self.eq(a, b)
                    elif isinstance(op, (ast.IsNot, ast.NotEq)): r = z3.Not(self.eq(a, b))
                    elif isinstance(op, ast.Lt): r = a < b
                    elif isinstance(op, ast.LtE): r = a <= b
                    elif isinstance(op, ast.Gt): r = a > b
                    elif isinstance(op, ast.GtE): r = a >= b
                    else: raise Unsupported(ast.dump(op))
                    outs.append(('ok', s2, r))
            return outs
        if isinstance(e, ast.Call):
            return self.call(e, st)
        raise Unsupported(ast.dump(e)[:80])

    def as_val(self, v):
        if isinstance(v, PreFailed): return v.z
        if z3.is_expr(v) and v.sort() == SeqV: return listv(v)
        return v
    def eq(self, a, b):
        a, b = self.as_val(a), self.as_val(b)
        if a.sort() != b.sort():
            return z3.BoolVal(False)      # e.g. int vs None
        return a == b
    def truth(self, v):
        if z3.is_bool(v): return v
        if z3.is_expr(v) and v.sort() == SeqV: return z3.Length(v) > 0
        raise Unsupported(f'truthiness of {v}')

    def evargs(self, args, st):
        outs = [('ok', st, [])]
        for a in args:
            nxt = []
            for k, s, vs in outs:
                if k != 'ok': nxt.append((k, s, vs)); continue
                for k2, s2, v in self.ev(a, s):
                    nxt.append((k2, s2, vs + [v] if k2 == 'ok' else v))
            outs = nxt
        return outs

    def call(self, e, st):
        f = e.func
        # builtins
        if isinstance(f, ast.Name) and f.id == 'len':
            return [(k, s, (z3.Length(v) if k == 'ok' else v)) for k, s, v in self.ev(e.args[0], st)]
        if isinstance(f, ast.Name) and f.id in self.spec.get('ignore_calls', ()):
            return [('ok', st, NONE)]
        if isinstance(f, ast.Attribute) and ast.unparse(f) in self.spec.get('ignore_calls', ()):
            return [('ok', st, NONE)]
        if isinstance(f, ast.Name) and f.id in ('OSError',):
            ex = fresh('exc_' + f.id, Val); st = st.fork().assume(cls_of(ex) == C(f.id)); return [('ok', st, ex)]
        outs = []
        for k, s, target in self.ev(f, st):
            if k != 'ok': outs.append((k, s, target)); continue
            for k2, s2, args in self.evargs(e.args, s):
                if k2 != 'ok': outs.append((k2, s2, args)); continue
                if isinstance(target, tuple) and target[0] == 'BOUND':
                    outs += target[1].call(self, s2, target[2], args, {})
                elif isinstance(target, tuple) and target[0] == 'MODULE':
                    m = self.spec.get('module_calls', {}).get(target[1])
                    if m is None: raise Unsupported(f'call {target[1]}')
                    outs += m.invoke(self, s2, args, {})
                elif isinstance(target, Model) and hasattr(target, 'invoke'):
                    outs += target.invoke(self, s2, args, {})
                else:
                    raise Unsupported(f'call {ast.unparse(e)[:60]}')
        return outs

    # ----- statements: return list of (kind, st, payload), kind in normal/break/continue/return/raise
    def block(self, stmts, st):
        outs = [('normal', st, None)]
        for s in stmts:
            nxt = []
            for k, cur, p in outs:
                if k != 'normal': nxt.append((k, cur, p)); continue
                nxt += self.stmt(s, cur)
            outs = nxt
        return outs

    def lift(self, evs):
        return [(('normal' if k == 'ok' else 'raise'), s, v) for k, s, v in evs]

    def assign(self, target, v, st):
        st = st.fork()
        if isinstance(target, ast.Name):
            st.env[target.id] = v
        elif isinstance(target, ast.Tuple) and len(target.elts) == 2:
            st.env[target.elts[0].id] = fst(v); st.env[target.elts[1].id] = snd(v)
        elif isinstance(target, ast.Attribute) and isinstance(target.value, ast.Name) and target.value.id == 'self':
            st.heap[('self', target.attr)] = v
        else:
            raise Unsupported(f'assign target {ast.unparse(target)}')
        return st

    def stmt(self, n, st):
        st = st.fork(); st.trace.append(n.lineno)
        if isinstance(n, ast.Expr):
            if isinstance(n.value, ast.Constant): return [('normal', st, None)]
            if isinstance(n.value, ast.Yield):
                outs = []
                for k, s, v in self.ev(n.value.value, st):
                    if k != 'ok': outs.append(('raise', s, v)); continue
                    s = s.fork(); s.ghost['out'] = snoc(s, s.ghost['out'], self.as_val(v))
                    if z3.is_expr(v) and v.sort() == SeqV: s.inst.append(unlist(listv(v)) == v)
                    for nm, fn in self.spec.get('at_yield', {}).items(): oblige(f'line {n.lineno}: yield: {nm}', s, fn(s))
                    outs.append(('normal', s, None))
                return outs
            # method call statement; special-case list.append on a Seq local
            c = n.value
            if isinstance(c, ast.Await): c = c.value
            if isinstance(c, ast.Call) and isinstance(c.func, ast.Attribute) and c.func.attr == 'append' and isinstance(c.func.value, ast.Name):
                nm = c.func.value.id
                outs = []
                for k, s, v in self.ev(c.args[0], st):
                    if k != 'ok': outs.append(('raise', s, v)); continue
                    s = s.fork(); s.env[nm] = z3.Concat(s.env[nm], z3.Unit(self.as_val(v))); outs.append(('normal', s, None))
                return outs
            return [(k, s, (None if k == 'normal' else v)) for k, s, v in self.lift(self.ev(c, st))]
        if isinstance(n, ast.Assign):
            outs = []
            for k, s, v in self.ev(n.value, st):
                if k != 'ok': outs.append(('raise', s, v)); continue
                for t in n.targets:
                    if isinstance(t, ast.Tuple) and isinstance(n.value, ast.Tuple):   # a, b = x, y
                        s = s.fork()
                        vs = [self.ev(el, s)[0][2] for el in n.value.elts]
                        for tt, vv in zip(t.elts, vs): s = self.assign(tt, vv, s)
                    else:
                        s = self.assign(t, v, s)
                outs.append(('normal', s, None))
            return outs
        if isinstance(n, ast.If):
            outs = []
            for k, s, c in self.ev(n.test, st):
                if k != 'ok': outs.append(('raise', s, c)); continue
                c = self.truth(c)
                s1 = s.fork().assume(c); s2 = s.fork().assume(z3.Not(c))
                if feasible(s1): outs += self.block(n.body, s1)
                if feasible(s2): outs += self.block(n.orelse, s2)
            return outs
        if isinstance(n, (ast.For, ast.AsyncFor)):
            return self.forloop(n, st)
        if isinstance(n, ast.While):
            return self.whileloop(n, st)
        if isinstance(n, ast.Break): return [('break', st, None)]
        if isinstance(n, ast.Continue): return [('continue', st, None)]
        if isinstance(n, ast.Pass): return [('normal', st, None)]
        if isinstance(n, ast.Return):
            if n.value is None: return [('return', st, NONE)]
            return [(('return' if k == 'ok' else 'raise'), s, v) for k, s, v in self.ev(n.value, st)]
        if isinstance(n, ast.Raise):
            outs = []
            for k, s, v in self.ev(n.exc, st):
                outs.append(('raise', s, v))
            return outs
        if isinstance(n, ast.Try):
            return self.trystmt(n, st)
        raise Unsupported(type(n).__name__)

    def trystmt(self, n, st):
        outs = []
        for k, s, p in self.block(n.body, st):
            if k == 'raise':
                handled = False
                rest = s
                for h in n.handlers:
                    cname = ast.unparse(h.type).split('.')[-1]
                    cond = sub(cls_of(p), C(cname))
                    s_c = rest.fork().assume(cond)
                    if feasible(s_c):
                        if h.name: s_c.env[h.name] = p
                        outs += self.block(h.body, s_c)
                    rest = rest.fork().assume(z3.Not(cond))
                if feasible(rest): outs.append(('raise', rest, p))
            elif k == 'normal' and n.orelse:
                outs += self.block(n.orelse, s)
            else:
                outs.append((k, s, p))
        if n.finalbody:
            fin = []
            for k, s, p in outs:
                for k2, s2, p2 in self.block(n.finalbody, s):
                    fin.append((k, s2, p) if k2 == 'normal' else (k2, s2, p2))
            outs = fin
        return outs

    def forloop(self, n, st):
        i = self.loop_index[id(n)]
        inv = self.spec['loops'][i]['inv']; mod = self.spec['loops'][i]['modifies']
        (k, s, src), = self.ev(n.iter, st)
        assert isinstance(src, Source), 'for over non-source'
        oblige(f'loop#{i} line {n.lineno}: invariant holds on entry', st, inv(st))
        # havoc
        h = st.fork()
        for name, sort in mod.get('locals', {}).items(): h.env[name] = fresh(name, sort) if sort is not None else h.env.get(name, UNBOUND)
        for name, sort in mod.get('ghost', {}).items(): h.ghost[name] = fresh(name, sort)
        h.assume(inv(h))
        outs = []
        for kind, s, x in src.pull(self, h):
            if kind == 'stop':
                outs += self.block(n.orelse, s) if n.orelse else [('normal', s, None)]
            elif kind == 'raise':
                outs.append(('raise', s, x))
            else:
                s = self.assign(n.target, x, s)
                for k2, s2, p in self.block(n.body, s):
                    if k2 in ('normal', 'continue'):
                        oblige(f'loop#{i} line {n.lineno}: invariant preserved (path {s2.trace[-6:]})', s2, inv(s2))
                    elif k2 == 'break':
                        outs.append(('normal', s2, None))
                    else:
                        outs.append((k2, s2, p))
        return outs

    def whileloop(self, n, st):
        # only the busy-wait shape `while <volatile cond>: <no state change>` is needed in this spike
        i = self.loop_index[id(n)]
        sp = self.spec['loops'][i]
        assert sp.get('kind') == 'spin'
        outs = []
        for k, s, c in self.ev(n.test, st):
            s = s.fork().assume(z3.Not(self.truth(c)))   # exit state: condition false on the last read
            sp.get('on_exit', lambda s: None)(s)
            outs.append(('normal', s, None))
        return outs

def load(path, qual):
    tree = ast.parse(open(SRC + path).read())
    node = tree
    for part in qual.split('.'):
        if part == '<locals>': continue
        node = next(x for x in ast.walk(node) if isinstance(x, (ast.FunctionDef, ast.AsyncFunctionDef, ast.ClassDef)) and x.name == part and x is not node)
    return node

def discharge(title):
    print(f'== {title}: {len(OBLIGATIONS)} obligations')
    ok = True
    for name, hyps, goal, trace in OBLIGATIONS:
        s = z3.Solver(); s.set('timeout', 10000); s.add(class_axioms()); s.add(hyps); s.add(z3.Not(goal))
        t = time.time(); r = s.check(); dt = (time.time() - t) * 1000
        verdict = 'discharged' if r == z3.unsat else ('FAILED' if r == z3.sat else 'undecided')
        print(f'   [{verdict:10s}] {dt:6.1f} ms  {name}')
        if r == z3.sat:
            ok = False
            m = s.model()
            keep = {str(d): m[d] for d in m.decls() if str(d).split('!')[0] in ('bs', 'exitcode', 'recvs', 'seen', 'out', 'batch', 'P', 'x', 'is_set')}
            print('        path lines:', trace[-14:])
            print('        model (excerpt):', keep)
    OBLIGATIONS.clear()
    return ok

# ================================================================== 1. Batcher.__iter__
def run_batcher():
    fn = load('streamer/_streamer.py', 'Batcher.__iter__')
    bs = z3.Int('bs')
    st = St(); st.env['self'] = 'SELF'
    st.heap[('self', '_batch_size')] = bs; st.heap[('self', '_instream')] = Source()
    st.ghost.update(seen=z3.Empty(SeqV), out=z3.Empty(SeqV), src_done=z3.BoolVal(False), _allfull_n=bs)
    st.assume(bs > 0)
    st.inst += [sflatten(z3.Empty(SeqV)) == z3.Empty(SeqV), allfull(z3.Empty(SeqV), bs)]
    def inv(s):
        return z3.And(allfull(s.ghost['out'], bs), z3.Concat(sflatten(s.ghost['out']), s.env['batch']) == s.ghost['seen'],
                      z3.Length(s.env['batch']) < bs, s.env['batch_size'] == bs)
    spec = {'loops': {0: {'inv': inv, 'modifies': {'locals': {'batch': SeqV, 'x': None}, 'ghost': {'seen': SeqV, 'out': SeqV}}}},
            'at_yield': {'every yielded batch has 1..bs elements': lambda s: z3.And(z3.Length(unlist(s.ghost['out'][z3.Length(s.ghost['out']) - 1])) >= 1,
                                                                                    z3.Length(unlist(s.ghost['out'][z3.Length(s.ghost['out']) - 1])) <= bs),
                         'look-ahead: pulled - elements handed on <= bs': lambda s: z3.Length(s.ghost['seen']) - z3.Length(sflatten(s.ghost['out'])) <= bs}}
    ex = Exec(fn, spec)
    for k, s, p in ex.block(fn.body, st):
        assert k == 'normal', k
        oblige('exit: flatten(out) == seen (partition of the whole input)', s, sflatten(s.ghost['out']) == s.ghost['seen'])
    return discharge('Batcher.__iter__ (real source)')

# ================================================================== 2. SpawnProcess._collect_result
def run_collect():
    fn = load('multiprocessing/context.py', 'SpawnProcess._collect_result')
    st = St(); st.env['self'] = 'SELF'
    exitcode = z3.Int('exitcode')
    st.heap[('self', '_result_and_error_')] = PipeConn()
    st.heap[('self', '_future_')] = FutureM()
    st.heap[('self', '_logger_queue_')] = LogQueue()
    st.heap[('self', 'exitcode')] = exitcode          # after the spin loop: the child's exit status (negative signal number)
    st.ghost.update(recvs=z3.IntVal(0), fut_done=z3.BoolVal(False), log_none_put=z3.BoolVal(False))
    st.assume(exitcode < 0)                            # EOF before both messages  => killed by a signal
    spec = {'loops': {0: {'kind': 'spin'}},
            'globals': {'errno': ('MODULE', 'errno'), 'os': ('MODULE', 'os'), 'time': ('MODULE', 'time')},
            'module_calls': {'os.strerror': OpaqueStr()},
            'ignore_calls': ('time.sleep',)}
    # errno.ENOTBLK
    ex = Exec(fn, spec)
    orig_ev = ex.ev
    def ev(e, s):
        if isinstance(e, ast.Attribute) and ast.unparse(e) == 'errno.ENOTBLK': return [('ok', s, z3.IntVal(15))]
        if isinstance(e, ast.BinOp): return [('ok', s, fresh('msg', z3.StringSort()))]
        return orig_ev(e, s)
    ex.ev = ev
    orig_stmt = ex.stmt
    def stmt(n, s):
        if isinstance(n, ast.AugAssign): return [('normal', s, None)]     # msg += '...'
        if isinstance(n, ast.Raise) and n.cause is not None:
            n2 = ast.Raise(exc=n.exc, cause=None); ast.copy_location(n2, n); return orig_stmt(n2, s)
        return orig_stmt(n, s)
    ex.stmt = stmt
    for k, s, p in ex.block(fn.body, st):
        oblige(f'exit ({k}): _future_ is resolved [C12: wait/as_completed must complete]', s, s.ghost['fut_done'])
        oblige(f'exit ({k}): log reader is told to stop', s, s.ghost['log_none_put'])
    return discharge('SpawnProcess._collect_result (real source)')

# ================================================================== 3. async_fifo_stream.<locals>.feed
def run_async_feed():
    fn = load('streamer/_streamer.py', 'async_fifo_stream.<locals>.feed')
    st = St()
    pre = Callable1('pre'); func = Callable1('func', raises='Exception')
    st.env.update(instream=Source(may_raise='Exception'), func=func, to_stop=EventM(), tasks=HistQueue(), preprocessor=pre,
                  func_kwargs=None)
    for nm in ('x', 'xx', 't', 'fut', 'e'): st.env[nm] = UNBOUND
    st.ghost.update(seen=z3.Empty(SeqV), out=z3.Empty(SeqV), P=z3.Empty(SeqV), src_done=z3.BoolVal(False))
    # contract of the feeder (same text as the sync feeder): every queued item j is pairv(x_j, t_j) with
    #   pre ok  -> t_j == func.f(pre.f(x_j))
    #   pre bad -> is_err(t_j) and outcome_err(t_j) == pre.exc(x_j)
    def good_last(s):
        P = s.ghost['P']; last = P[z3.Length(P) - 1]; x = s.ghost['seen'][z3.Length(s.ghost['seen']) - 1]
        t = snd(last)
        return z3.And(z3.Length(P) == z3.Length(s.ghost['seen']), fst(last) == x,
                      z3.If(pre.ok(x), t == func.f(pre.f(x)), z3.And(is_err(t), outcome_err(t) == pre.exc(x))))
    def inv(s):  # lengths agree (pointwise clause is asserted when each item is queued)
        return z3.Length(s.ghost['P']) == z3.Length(s.ghost['seen'])
    spec = {'loops': {0: {'inv': inv, 'modifies': {'locals': {'x': None, 'xx': None, 't': 'stale', 'fut': None, 'e': None}, 'ghost': {'seen': SeqV, 'P': SeqV}}}},
            'globals': {'asyncio': ('MODULE', 'asyncio')},
            'module_calls': {'asyncio.Future': AsyncFutureCtor()}}
    ex = Exec(fn, spec)
    # preprocessor is None test: the spec fixes preprocessor to a callable, so `preprocessor is None` is False
    orig_eq = ex.eq
    def eq(a, b):
        if isinstance(a, Model) or isinstance(b, Model): return z3.BoolVal(False)
        return orig_eq(a, b)
    ex.eq = eq
    # calls with **func_kwargs : drop the (opaque, unchanged) kwargs pack
    orig_call = ex.call
    def call(e, s):
        e2 = ast.Call(func=e.func, args=e.args, keywords=[]); ast.copy_location(e2, e)
        return orig_call(e2, s)
    ex.call = call
    # havoc with 'stale': in iteration >= 2 a local holds an arbitrary older value; in iteration 1 it is unbound -> explore both
    orig_for = ex.forloop
    def forloop(n, s):
        outs = []
        for first in (True, False):
            s0 = s.fork()
            sp = spec['loops'][0]['modifies']['locals']
            def mk(name):
                return UNBOUND if first else fresh('stale_' + name, Val)
            ex.loop_ord = itertools.count()
            i = 0
            oblige(f'loop#0: invariant on entry', s0, inv(s0))
            h = s0.fork()
            for name in sp: h.env[name] = mk(name)
            h.ghost['seen'] = fresh('seen', SeqV); h.ghost['P'] = fresh('P', SeqV)
            h.assume(inv(h))
            if first: h.assume(z3.Length(h.ghost['seen']) == 0)
            src = h.env['instream']
            for kind, s1, x in src.pull(ex, h):
                if kind != 'item':
                    outs.append(('normal' if kind == 'stop' else 'raise', s1, x)); continue
                s1 = ex.assign(n.target, x, s1)
                for k2, s2, p in ex.block(n.body, s1):
                    tag = 'first iteration' if first else 'later iteration'
                    if k2 in ('normal', 'continue'):
                        oblige(f'{tag}: queued item pairs x with ITS OWN future (path {s2.trace[-7:]})', s2, good_last(s2))
                    elif k2 == 'break': outs.append(('normal', s2, None))
                    else: outs.append((k2, s2, p))
        return outs
    ex.forloop = forloop
    ex.block(fn.body, st)
    return discharge('async_fifo_stream.feed (real source)')

if __name__ == '__main__':
    a = run_batcher()
    b = run_collect()
    c = run_async_feed()
    print('batcher proved:', a, '| collect_result proved:', b, '| async feed proved:', c)
