from z3 import *
import time
Val = DeclareSort('Val'); SeqV = SeqSort(Val)
P,recv,sent = Consts('P recv sent', SeqV); NONE = Const('NONE', Val)
j,k = Ints('j k')
def valid(name, hyps, goal, to=20000):
    t=time.time(); so=Solver(); so.set('timeout',to); so.add(hyps); so.add(Not(goal)); r=so.check()
    print(f'{name}: {"proved" if r==unsat else r} {time.time()-t:.3f}s')
# feeder guarantee (final): |P| = |sent|+1, forall j<|sent|: P[j]==sent[j] != NONE, P[|sent|]==NONE
feeder = And(Length(P)==Length(sent)+1, ForAll([j], Implies(And(0<=j, j<Length(sent)), And(P[j]==sent[j], P[j]!=NONE))), P[Length(sent)]==NONE)
# consumer: k gets, forall j<k: recv[j]==P[j] != NONE ; |recv|==k ; k<|P| ; P[k]==NONE
consumer = And(Length(recv)==k, k>=0, k<Length(P), ForAll([j], Implies(And(0<=j,j<k), And(recv[j]==P[j], recv[j]!=NONE))), P[k]==NONE)
valid('k==|sent|', [feeder, consumer], k==Length(sent))
valid('recv==sent pointwise', [feeder, consumer, 0<=j, j<k], recv[j]==sent[j])
# extensionality: equal length and pointwise equal => equal  (z3 seq may need help)
valid('recv==sent', [feeder, consumer], recv==sent)
