import time, faulthandler, gc
from mpservice.mpserver import Server, ThreadServlet, EnsembleServlet, Worker
faulthandler.dump_traceback_later(90, exit=True)
class A(Worker):
    def call(self, x):
        if x < 0: raise ValueError(x)
        return ('A', x)
class B(Worker):
    def call(self, x):
        if x < 0: time.sleep(3.0)
        return ('B', x)
server = Server(EnsembleServlet(ThreadServlet(A), ThreadServlet(B, num_threads=4), fail_fast=True), capacity=64)
ids = []
orig = server._enqueue
def spy(x, timeout, backpressure):
    fut = orig(x, timeout, backpressure); ids.append(id(fut)); return fut
server._enqueue = spy
bad = []
with server:
    for attempt in range(5):
        try:
            server.call(-5 - attempt, timeout=5)
        except Exception:
            pass
        failed_uid = ids[-1]
        t0 = time.perf_counter(); x = 500; reused = None
        while time.perf_counter() - t0 < 2.5:
            y = server.call(x, timeout=10)
            if ids[-1] == failed_uid and reused is None:
                reused = x
            if y != [('A', x), ('B', x)]:
                bad.append((x, y)); break
            x += 1
        print('attempt', attempt, 'requests', x - 500, 'uid reused at', reused, 'bad', bad[-1:] )
        time.sleep(1.0)
        if bad: break
print('cross-talk:', bad)
