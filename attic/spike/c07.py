import threading, time, concurrent.futures, faulthandler
from mpservice.mpserver import Server, ThreadServlet, Worker
faulthandler.dump_traceback_later(20, exit=True)

class W(Worker):
    def call(self, x):
        return x

victim = {}
orig = concurrent.futures.Future.cancelled
def cancelled(self):
    r = orig(self)
    if victim.get('id') == id(self) and not r:
        # the caller's deadline expires exactly here: between the gather thread's check and set_result
        self.cancel()
        victim['hit'] = True
    return r
concurrent.futures.Future.cancelled = cancelled

def main():
    server = Server(ThreadServlet(W), capacity=8)
    with server:
        print(server.call(1))
        # emulate a timed-out call whose cancel lands in the window
        fut = server._enqueue(2, 60, True)
        victim['id'] = id(fut)
        time.sleep(0.5)
        print('hit', victim.get('hit'), 'gather alive', server._gather_thread.is_alive())
        try:
            print(server.call(3, timeout=3))
        except Exception as e:
            print('later call failed:', repr(e))
        print('exiting')
    print('exited')
main()
