import time, faulthandler, gc
from mpservice.mpserver import Server, ThreadServlet, EnsembleServlet, Worker
faulthandler.dump_traceback_later(60, exit=True)
class A(Worker):
    def call(self, x):
        if x < 0: raise ValueError(x)
        return ('A', x)
class B(Worker):
    def call(self, x):
        if x < 0: time.sleep(0.5)      # slow on the request that A fails fast
        return ('B', x)
server = Server(EnsembleServlet(ThreadServlet(A), ThreadServlet(B), fail_fast=True), capacity=64)
bad = []
with server:
    for rnd in range(20):
        try:
            server.call(-(rnd + 1), timeout=5)
        except Exception as e:
            pass                        # EnsembleError, answered early; B still sleeping on this uid
        # now issue fresh requests; one of them may be given the recycled id(fut)
        for k in range(3):
            x = 1000 * (rnd + 1) + k
            try:
                y = server.call(x, timeout=5)
            except Exception as e:
                y = repr(e)
            if y != [('A', x), ('B', x)]:
                bad.append((x, y))
        time.sleep(0.6)
print('cross-talk cases:', bad[:5], 'count', len(bad))
