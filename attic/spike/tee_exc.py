import threading, faulthandler
from mpservice.streamer import tee
faulthandler.dump_traceback_later(10, exit=True)
def src():
    for i in range(5):
        yield i
    raise ValueError('boom')
a, b = tee(src(), 2, buffer_size=4)
res = {}
def run(name, s):
    out = []
    try:
        for x in s: out.append(x)
        res[name] = (out, 'exhausted')
    except Exception as e:
        res[name] = (out, repr(e))
ta = threading.Thread(target=run, args=('a', a)); tb = threading.Thread(target=run, args=('b', b))
ta.start(); tb.start(); ta.join(); tb.join()
print(res)
